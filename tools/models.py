"""Command numbers of coq/model/Dispatch.v, read from its CMD comments."""
import os
import re
import vlib

_cmds = None


def cmd(name):
    global _cmds
    if _cmds is None:
        src = open(os.path.join(vlib.COQ, "model", "Dispatch.v")).read()
        _cmds = {m.group(1): int(m.group(2)) for m in re.finditer(r"CMD\s+(\w+)\s*=\s*(\d+)", src)}
    return str(_cmds[name])


def run(name, cases, timeout=1800):
    """cases: list of lists of ints. returns list of lists of ints"""
    lines = [" ".join(str(int(x)) for x in c) for c in cases]
    out = vlib.run_model(cmd(name), lines, timeout)
    if len(out) != len(cases):
        raise RuntimeError("model %s: %d results for %d cases" % (name, len(out), len(cases)))
    return [[int(t) for t in l.split()] for l in out]
