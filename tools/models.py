"""Access to the extracted models. Command numbers are read from the CMD comments of the
model's Dispatch file (coq/model/Dispatch.v for the default binary, coq/model/Dispatch<Name>.v
for build/<name>)."""
import os
import re
import vlib

_cmds = {}


def cmd(name, exe_name="velaverif"):
    if exe_name not in _cmds:
        f = "Dispatch.v" if exe_name == "velaverif" else "Dispatch%s.v" % (exe_name[0].upper() + exe_name[1:])
        src = open(os.path.join(vlib.COQ, "model", f)).read()
        _cmds[exe_name] = {m.group(1): int(m.group(2)) for m in re.finditer(r"CMD\s+(\w+)\s*=\s*(\d+)", src)}
    return str(_cmds[exe_name][name])


def run(name, cases, timeout=1800, exe_name="velaverif"):
    """cases: list of lists of ints. returns list of lists of ints"""
    lines = [" ".join(str(int(x)) for x in c) for c in cases]
    out = vlib.run_model(cmd(name, exe_name), lines, timeout, exe_name)
    if len(out) != len(cases):
        raise RuntimeError("model %s: %d results for %d cases" % (name, len(out), len(cases)))
    return [[int(t) for t in l.split()] for l in out]


def run_parallel(name, cases, timeout=3600, exe_name="velaverif", workers=None):
    """same as run() but the cases are dealt round-robin to several model processes"""
    import concurrent.futures
    workers = min(workers or vlib.NCPU, max(1, len(cases)))
    if workers <= 1:
        return run(name, cases, timeout, exe_name)
    chunks = [cases[i::workers] for i in range(workers)]
    with concurrent.futures.ThreadPoolExecutor(max_workers=workers) as ex:
        outs = list(ex.map(lambda c: run(name, c, timeout, exe_name) if c else [], chunks))
    res = [None] * len(cases)
    for w, o in enumerate(outs):
        for j, x in enumerate(o):
            res[w + j * workers] = x
    return res
