#!/venv/bin/python
"""mkseedtask.py <prefix> <id>...: scratch worktree /tmp/<prefix>_<id> of /repo (HEAD) with a TASK.md for a seeding
sub-agent: the property's text only, nothing from /verif."""
import json, os, subprocess, sys
prefix = sys.argv[1]
props = {json.loads(l)["id"]: json.loads(l) for l in open("/verif/properties.jsonl")}
TEMPLATE = open("/verif/tools/seedtask_template.md").read()
for pid in sys.argv[2:]:
    p = props[pid]
    wt = "/tmp/%s_%s" % (prefix, pid)
    if not os.path.exists(wt):
        subprocess.check_call(["git", "-C", "/repo", "worktree", "add", "-q", "--detach", wt, "main"])
    a = p.get("anchors", {})
    mech = "; ".join("%s (%s)" % (m["name"], m["where"]) for m in a.get("mechanism", []))
    txt = TEMPLATE.replace("@WT@", wt).replace("@TITLE@", p["title"]).replace("@STATEMENT@", p["statement"]) \
        .replace("@QUANT@", p["quantifier"]["text"]).replace("@FILES@", ", ".join(a.get("files", []))).replace("@MECH@", mech)
    open(os.path.join(wt, "TASK.md"), "w").write(txt)
    print(wt)
