import sys; sys.path.insert(0,'/verif/tools')
import vlib
b=vlib.build_property(sys.argv[1])
print(b['ok'], round(b['wall'],1), b['assumptions'], b['failed_files'], b['hygiene'])
for e in b['errors'][:3]: print(e['file'], e['line'], e['message'])
if not b['ok'] and not b['errors']: print(b['log'][-3000:])
