#!/venv/bin/python
"""One compilation in one fresh process.  usage: vela_worker.py <job.json>

job: {family, seed, args: [...vela CLI args without network/output-dir...], out_dir, capture: bool,
      tflite: optional path of an existing model instead of family/seed}
Writes <out_dir>/result.json: {status, exit_code, exception, traceback, stdout, net_desc, files, capture...}
status: "ok" (main returned 0), "vela_error" (returned non-zero, diagnostic printed),
        "crash" (exception escaped main or SystemExit with a traceback-less abnormal path)."""
import contextlib
import io
import json
import os
import sys
import time
import traceback

HERE = os.path.dirname(os.path.abspath(__file__))
sys.path.insert(0, HERE)
REPO = os.environ.get("VERIF_REPO", "/repo")
sys.path.insert(0, REPO)
import codec_build  # noqa: E402
codec_build.install()


def main():
    job = json.load(open(sys.argv[1]))
    out_dir = job["out_dir"]
    os.makedirs(out_dir, exist_ok=True)
    res = {"job": job}
    import netgen
    if job.get("tflite"):
        model_path = job["tflite"]
        res["net_desc"] = [os.path.basename(model_path)]
        res["net_name"] = "corpus:" + os.path.basename(model_path)
    else:
        net = netgen.generate(job["family"], job["seed"])
        model_path = os.path.join(out_dir, "model.tflite")
        open(model_path, "wb").write(net.build())
        res["net_desc"] = net.desc
        res["net_name"] = net.name
    cap = None
    from ethosu.vela import vela
    if job.get("capture"):
        import wrap
        cap = wrap.install()
    args = [model_path, "--output-dir", out_dir] + list(job.get("args", []))
    buf = io.StringIO()
    t0 = time.time()
    cwd = job.get("cwd")
    if cwd:
        os.chdir(cwd)
    try:
        with contextlib.redirect_stdout(buf), contextlib.redirect_stderr(buf):
            rc = vela.main(args)
        res["exit_code"] = rc
        res["status"] = "ok" if rc == 0 else "vela_error"
    except SystemExit as ex:
        # argparse errors and the reader's sys.exit paths: a diagnosed rejection if a message was printed
        res["exit_code"] = ex.code if isinstance(ex.code, int) else 1
        res["status"] = "ok" if res["exit_code"] == 0 else "vela_error"
        res["system_exit"] = True
    except BaseException as ex:  # noqa
        res["status"] = "crash"
        res["exception"] = "%s: %s" % (type(ex).__name__, ex)
        tb = traceback.extract_tb(ex.__traceback__)
        res["traceback"] = traceback.format_exc()[-4000:]
        last = [f for f in tb if "/ethosu/" in f.filename]
        if last:
            f = last[-1]
            res["crash_site"] = "%s:%s" % (os.path.relpath(f.filename, REPO), f.name)
    res["wall"] = round(time.time() - t0, 3)
    res["stdout"] = buf.getvalue()[-20000:]
    res["files"] = sorted(os.listdir(out_dir))
    if cap is not None:
        try:
            res["capture"] = cap.dump(out_dir)
        except Exception as ex:
            res["capture_error"] = traceback.format_exc()[-2000:]
    tmp = os.path.join(out_dir, "result.json.tmp")
    with open(tmp, "w") as f:
        json.dump(res, f)
    os.replace(tmp, os.path.join(out_dir, "result.json"))   # atomically: readers never see a partial file


if __name__ == "__main__":
    main()
