"""From a compilation result to the inputs of the proved validators: command words, published
region sizes, accelerator constants."""
import json
import os
import struct

import compiles
import tflsum
import vlib

_accel = None


def accel_rows():
    """accelerator constants as introspected into gen/GenTables.v by the generator (same source)"""
    global _accel
    if _accel is None:
        import re
        src = open(os.path.join(vlib.COQ, "gen", "GenTables.v")).read()
        rows = {}
        for m in re.finditer(r"\{\| a_name := \"([^\"]+)\"%string;([^}]*)\|\}", src):
            d = {k: int(v) for k, v in re.findall(r"(a_\w+) := (-?\d+)", m.group(2))}
            rows[m.group(1)] = d
        _accel = rows
    return _accel


def job_accel(job):
    a = job.get("args", [])
    return a[a.index("--accelerator-config") + 1] if "--accelerator-config" in a else "ethos-u65-256"


def payload_words(data):
    """split a driver payload into (header words, command words) with a minimal independent reader"""
    ws = list(struct.unpack("<%dI" % (len(data) // 4), data[:len(data) // 4 * 4]))
    i = 1
    while i < len(ws):
        tid = ws[i] & 0xFF
        if tid == 1:
            i += 3
        elif tid == 5:
            i += 1
        elif tid == 2:
            n = (((ws[i] >> 8) & 0xFF) << 16) | (ws[i] >> 16)
            return ws[:i + 1], ws[i + 1:i + 1 + n], len(ws) - (i + 1 + n)
        else:
            break
    return ws, None, 0


def load(res):
    """returns dict(summary, npu: [{words, sizes{0,1,2}, payload, op}], capture) or None when no output"""
    path = compiles.artefact(res)
    if not path:
        return None
    s = tflsum.summarise(path)
    out = {"summary": s, "npu": [], "path": path}
    for si, op in tflsum.npu_ops(s):
        sg = s["subgraphs"][si]
        ins = op["inputs"]
        cs = tflsum.tensor_bytes(s, si, ins[0])
        hdr, words, trailing = payload_words(cs)
        t = sg["tensors"]
        sizes = {0: t[ins[1]]["shape"][0] if t[ins[1]]["shape"] else 0,
                 1: t[ins[2]]["shape"][0] if t[ins[2]]["shape"] else 0,
                 2: t[ins[3]]["shape"][0] if t[ins[3]]["shape"] else 0}
        out["npu"].append({"words": words, "sizes": sizes, "payload": cs, "op": op, "sg": si, "trailing": trailing,
                           "flash": tflsum.tensor_bytes(s, si, ins[1])})
    cp = os.path.join(res["job"]["out_dir"], "capture.json")
    out["capture"] = json.load(open(cp)) if os.path.exists(cp) else None
    return out


def hw_args(job):
    r = accel_rows()[job_accel(job)]
    return [r["a_ncores"], r["a_lut_address"], r["a_shram_bytes"]]
