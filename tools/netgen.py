"""Builds quantised TFLite flatbuffers directly (no TensorFlow) for the end-to-end checks.

`Net` is a tiny graph DSL; `families` are parameterised network generators drawing every choice
from the random.Random they are given.  The schema accessor modules under tools/tfl are a private
copy of the flatc-generated code (independent of /repo)."""
import importlib
import os
import math
import random
import sys

import flatbuffers
import numpy as np

HERE = os.path.dirname(os.path.abspath(__file__))
if HERE not in sys.path:
    sys.path.insert(0, HERE)

from tfl import Metadata  # noqa: E402
from tfl import (Buffer, BuiltinOperator, BuiltinOptions, Model, Operator, OperatorCode,  # noqa: E402
                 QuantizationParameters, SubGraph, Tensor, TensorType)

TT = {"float32": 0, "float16": 1, "int32": 2, "uint8": 3, "int64": 4, "string": 5, "bool": 6, "int16": 7,
      "int8": 9, "resource": 13}
NPT = {"float32": np.float32, "int32": np.int32, "uint8": np.uint8, "int64": np.int64, "int16": np.int16,
       "int8": np.int8, "bool": np.bool_, "float16": np.float16}
BO = {k: v for k, v in vars(BuiltinOperator.BuiltinOperator).items() if not k.startswith("_")}
BOPT = {k: v for k, v in vars(BuiltinOptions.BuiltinOptions).items() if not k.startswith("_")}
ACT = {"NONE": 0, "RELU": 1, "RELU_N1_TO_1": 2, "RELU6": 3, "TANH": 4}
PADDING = {"SAME": 0, "VALID": 1}

# operator name -> (options table name, version)
OPT_OF = {
    "CONV_2D": "Conv2DOptions", "DEPTHWISE_CONV_2D": "DepthwiseConv2DOptions", "FULLY_CONNECTED": "FullyConnectedOptions",
    "MAX_POOL_2D": "Pool2DOptions", "AVERAGE_POOL_2D": "Pool2DOptions", "ADD": "AddOptions", "SUB": "SubOptions",
    "MUL": "MulOptions", "RESHAPE": "ReshapeOptions", "CONCATENATION": "ConcatenationOptions", "PAD": "PadOptions",
    "STRIDED_SLICE": "StridedSliceOptions", "LOGISTIC": None, "TANH": None, "RELU": None, "RELU6": None, "RELU_N1_TO_1": None,
    "LEAKY_RELU": "LeakyReluOptions", "HARD_SWISH": "HardSwishOptions", "SOFTMAX": "SoftmaxOptions",
    "MEAN": "ReducerOptions", "RESIZE_BILINEAR": "ResizeBilinearOptions",
    "RESIZE_NEAREST_NEIGHBOR": "ResizeNearestNeighborOptions", "QUANTIZE": "QuantizeOptions",
    "TRANSPOSE_CONV": "TransposeConvOptions", "FLOOR": None, "ABS": "AbsOptions", "MINIMUM": "MaximumMinimumOptions",
    "MAXIMUM": "MaximumMinimumOptions", "SPLIT": "SplitOptions", "SPLIT_V": "SplitVOptions", "SQUEEZE": "SqueezeOptions",
    "EXPAND_DIMS": "ExpandDimsOptions", "TRANSPOSE": "TransposeOptions", "SLICE": "SliceOptions",
    "DEQUANTIZE": "DequantizeOptions", "EXP": "ExpOptions", "ARG_MAX": "ArgMaxOptions", "PACK": "PackOptions",
    "UNPACK": "UnpackOptions", "SHAPE": "ShapeOptions", "PRELU": None, "RSQRT": None, "CUSTOM": None,
    "SPACE_TO_DEPTH": "SpaceToDepthOptions", "DEPTH_TO_SPACE": "DepthToSpaceOptions", "SQUARED_DIFFERENCE": "SquaredDifferenceOptions",
    "MIRROR_PAD": "MirrorPadOptions", "GATHER": "GatherOptions", "L2_NORMALIZATION": "L2NormOptions", "LOG": None,
    "CAST": "CastOptions", "NEG": "NegOptions", "BATCH_MATMUL": "BatchMatMulOptions",
    # control flow: the options hold subgraph indices (see Net.subnets)
    "WHILE": "WhileOptions", "IF": "IfOptions", "CALL_ONCE": "CallOnceOptions", "CALL": "CallOptions",
    "LESS": "LessOptions", "GREATER": "GreaterOptions", "EQUAL": "EqualOptions",
    "VAR_HANDLE": "VarHandleOptions", "ASSIGN_VARIABLE": "AssignVariableOptions", "READ_VARIABLE": "ReadVariableOptions",
    "UNIDIRECTIONAL_SEQUENCE_LSTM": "UnidirectionalSequenceLSTMOptions",
    "SPACE_TO_BATCH_ND": "SpaceToBatchNDOptions", "BATCH_TO_SPACE_ND": "BatchToSpaceNDOptions",
}
VERSION = {"CONV_2D": 3, "DEPTHWISE_CONV_2D": 3, "FULLY_CONNECTED": 4, "MAX_POOL_2D": 2, "AVERAGE_POOL_2D": 2, "ADD": 2,
           "SUB": 2, "MUL": 2, "CONCATENATION": 2, "PAD": 2, "LOGISTIC": 2, "TANH": 2, "RELU": 2, "RELU6": 2,
           "LEAKY_RELU": 2, "SOFTMAX": 2, "MEAN": 2, "RESIZE_BILINEAR": 2, "RESIZE_NEAREST_NEIGHBOR": 2,
           "QUANTIZE": 2, "TRANSPOSE_CONV": 2, "STRIDED_SLICE": 2, "MINIMUM": 2, "MAXIMUM": 2, "SPLIT": 2,
           "UNIDIRECTIONAL_SEQUENCE_LSTM": 3}


class T:
    """tensor handle"""

    def __init__(self, idx, shape, dtype, scale, zp, data, name, qdim):
        self.idx, self.shape, self.dtype, self.scale, self.zp, self.data, self.name, self.qdim = (
            idx, list(shape), dtype, scale, zp, data, name, qdim)
        self.is_variable = False       # a state tensor (kept between invocations, e.g. of an LSTM)


class Net:
    def __init__(self, name="net"):
        self.name = name
        self.tensors = []
        self.ops = []
        self.inputs = []
        self.outputs = []
        self.desc = []
        # further subgraphs of the model (each a Net with its own tensors/ops/inputs/outputs); this Net is subgraph 0,
        # subnets[k] is subgraph k+1.  Buffers and operator codes are global to the model.  sgname = subgraph name.
        self.subnets = []
        self.sgname = "main"

    def tensor(self, shape, dtype="int8", scale=None, zp=None, data=None, name=None, qdim=0):
        if name is None:
            name = "t%d" % len(self.tensors)
        if data is not None:
            data = np.asarray(data, dtype=NPT[dtype]).reshape(shape if len(shape) else ())
        t = T(len(self.tensors), shape, dtype, scale, zp, data, name, qdim)
        self.tensors.append(t)
        return t

    def input(self, *a, **k):
        t = self.tensor(*a, **k)
        self.inputs.append(t)
        return t

    def op(self, kind, inputs, outputs, opts=None, custom_code=None, custom_options=None, version=None, intermediates=None):
        self.ops.append(dict(kind=kind, inputs=list(inputs), outputs=list(outputs), opts=opts or {},
                             custom_code=custom_code, custom_options=custom_options,
                             version=version or VERSION.get(kind, 1), intermediates=list(intermediates or [])))
        self.desc.append(kind)
        return outputs[0] if outputs else None

    def output(self, *ts):
        self.outputs += list(ts)

    # ------------------------------------------------------------------ serialisation
    def build(self):
        b = flatbuffers.Builder(1024)
        # buffers: 0 is the empty sentinel
        nets = [self] + list(self.subnets)     # subgraph 0 is self; buffers and operator codes are model-wide
        buf_data = [None]
        tens_bufs = []
        for net in nets:
            tens_buf = []
            for t in net.tensors:
                if t.data is not None:
                    raw = t.data.tobytes()
                    if getattr(self, "dedupe_buffers", False) and raw in buf_data:
                        tens_buf.append(buf_data.index(raw))      # equal constants share one buffer, as the converter writes them
                        continue
                    buf_data.append(raw)
                    tens_buf.append(len(buf_data) - 1)
                else:
                    buf_data.append(None)  # one (empty) buffer per tensor like the TFLite converter
                    tens_buf.append(len(buf_data) - 1)
            tens_bufs.append(tens_buf)
        # "<family>!meta": metadata entries of the input model (each names a buffer of its own), as converters write them
        meta_entries = list(getattr(self, "metadata", None) or [])
        meta_buf = []
        for _, d in meta_entries:
            buf_data.append(bytes(d))
            meta_buf.append(len(buf_data) - 1)
        buf_offs = []
        for d in buf_data:
            dv = None
            if d is not None:
                b.StartVector(1, len(d), 16)
                b.head = b.head - len(d)
                b.Bytes[b.head:b.head + len(d)] = d
                dv = b.EndVector()
            Buffer.BufferStart(b)
            if dv is not None:
                Buffer.BufferAddData(b, dv)
            buf_offs.append(Buffer.BufferEnd(b))
        # operator codes
        codes = []
        code_idx = {}
        for o in [o for net in nets for o in net.ops]:
            key = (o["kind"], o["custom_code"], o["version"])
            if key not in code_idx:
                code_idx[key] = len(codes)
                codes.append(key)
        code_offs = []
        for kind, cc, ver in codes:
            ccs = b.CreateString(cc) if cc else None
            OperatorCode.OperatorCodeStart(b)
            bc = BO[kind]
            OperatorCode.OperatorCodeAddDeprecatedBuiltinCode(b, min(bc, 127))
            OperatorCode.OperatorCodeAddBuiltinCode(b, bc)
            if ccs is not None:
                OperatorCode.OperatorCodeAddCustomCode(b, ccs)
            OperatorCode.OperatorCodeAddVersion(b, ver)
            code_offs.append(OperatorCode.OperatorCodeEnd(b))

        def vec(start, offs):
            start(b, len(offs))
            for o in reversed(offs):
                b.PrependUOffsetTRelative(o)
            return b.EndVector()

        sg_offs = []
        for net, tens_buf in zip(nets, tens_bufs):
            # tensors
            tens_offs = []
            for t, bi in zip(net.tensors, tens_buf):
                nm = b.CreateString(t.name)
                shp = b.CreateNumpyVector(np.array(t.shape, dtype=np.int32)) if t.shape is not None else None
                q = None
                if t.scale is not None:
                    sc = np.atleast_1d(np.array(t.scale, dtype=np.float32))
                    zp = np.atleast_1d(np.array(t.zp if t.zp is not None else 0, dtype=np.int64))
                    scv = b.CreateNumpyVector(sc)
                    zpv = b.CreateNumpyVector(zp)
                    mnv = mxv = None
                    if getattr(self, "legacy_minmax", False) and len(sc) == 1 and t.dtype in ("int8", "uint8", "int16") and t.data is None:
                        # the optional legacy fields min / max of the quantisation record (real range of the tensor)
                        lo_, hi_ = {"int8": (-128, 127), "uint8": (0, 255), "int16": (-32768, 32767)}[t.dtype]
                        mnv = b.CreateNumpyVector(np.array([(lo_ - int(zp[0])) * float(sc[0])], dtype=np.float32))
                        mxv = b.CreateNumpyVector(np.array([(hi_ - int(zp[0])) * float(sc[0])], dtype=np.float32))
                    QuantizationParameters.QuantizationParametersStart(b)
                    if mnv is not None:
                        QuantizationParameters.QuantizationParametersAddMin(b, mnv)
                        QuantizationParameters.QuantizationParametersAddMax(b, mxv)
                    QuantizationParameters.QuantizationParametersAddScale(b, scv)
                    QuantizationParameters.QuantizationParametersAddZeroPoint(b, zpv)
                    QuantizationParameters.QuantizationParametersAddQuantizedDimension(b, t.qdim)
                    q = QuantizationParameters.QuantizationParametersEnd(b)
                Tensor.TensorStart(b)
                if shp is not None:
                    Tensor.TensorAddShape(b, shp)
                Tensor.TensorAddType(b, TT[t.dtype])
                Tensor.TensorAddBuffer(b, bi)
                Tensor.TensorAddName(b, nm)
                if q is not None:
                    Tensor.TensorAddQuantization(b, q)
                if t.is_variable:
                    Tensor.TensorAddIsVariable(b, True)
                tens_offs.append(Tensor.TensorEnd(b))
            # operators
            op_offs = []
            for o in net.ops:
                iv = b.CreateNumpyVector(np.array([(-1 if t is None else t.idx) for t in o["inputs"]], dtype=np.int32))
                ov = b.CreateNumpyVector(np.array([t.idx for t in o["outputs"]], dtype=np.int32))
                optname = OPT_OF.get(o["kind"])
                optoff = None
                if optname:
                    mod = importlib.import_module("tfl." + optname)
                    vecs = {}
                    for k, v in o["opts"].items():
                        if isinstance(v, (list, tuple)):
                            vecs[k] = b.CreateNumpyVector(np.array(v, dtype=np.int32))
                        elif isinstance(v, str):
                            vecs[k] = b.CreateString(v)
                    getattr(mod, optname + "Start")(b)
                    for k, v in o["opts"].items():
                        getattr(mod, optname + "Add" + k)(b, vecs[k] if k in vecs else v)
                    optoff = getattr(mod, optname + "End")(b)
                co = None
                if o["custom_options"] is not None:
                    co = b.CreateByteVector(bytes(o["custom_options"]))
                imv = None
                if o.get("intermediates"):
                    imv = b.CreateNumpyVector(np.array([t.idx for t in o["intermediates"]], dtype=np.int32))
                Operator.OperatorStart(b)
                if imv is not None:
                    Operator.OperatorAddIntermediates(b, imv)
                Operator.OperatorAddOpcodeIndex(b, code_idx[(o["kind"], o["custom_code"], o["version"])])
                Operator.OperatorAddInputs(b, iv)
                Operator.OperatorAddOutputs(b, ov)
                if optoff is not None:
                    Operator.OperatorAddBuiltinOptionsType(b, BOPT[optname])
                    Operator.OperatorAddBuiltinOptions(b, optoff)
                if co is not None:
                    Operator.OperatorAddCustomOptions(b, co)
                op_offs.append(Operator.OperatorEnd(b))

            tv = vec(SubGraph.SubGraphStartTensorsVector, tens_offs)
            iv = b.CreateNumpyVector(np.array([t.idx for t in net.inputs], dtype=np.int32))
            ov = b.CreateNumpyVector(np.array([t.idx for t in net.outputs], dtype=np.int32))
            opv = vec(SubGraph.SubGraphStartOperatorsVector, op_offs)
            anon = getattr(net, "anon", False) if net is not self else getattr(self, "main_anon", False)   # the name is optional
            sgname = None if anon else b.CreateString(net.sgname if net is not self else "main")
            SubGraph.SubGraphStart(b)
            SubGraph.SubGraphAddTensors(b, tv)
            SubGraph.SubGraphAddInputs(b, iv)
            SubGraph.SubGraphAddOutputs(b, ov)
            SubGraph.SubGraphAddOperators(b, opv)
            if sgname is not None:
                SubGraph.SubGraphAddName(b, sgname)
            sg_offs.append(SubGraph.SubGraphEnd(b))
        sgv = vec(Model.ModelStartSubgraphsVector, sg_offs)
        cv = vec(Model.ModelStartOperatorCodesVector, code_offs)
        bv = vec(Model.ModelStartBuffersVector, buf_offs)
        desc = b.CreateString("verif netgen " + self.name)
        mv = None
        if meta_entries:
            moffs = []
            for (mname, _), bi in zip(meta_entries, meta_buf):
                ns = b.CreateString(mname)
                Metadata.MetadataStart(b)
                Metadata.MetadataAddName(b, ns)
                Metadata.MetadataAddBuffer(b, bi)
                moffs.append(Metadata.MetadataEnd(b))
            mv = vec(Model.ModelStartMetadataVector, moffs)
        Model.ModelStart(b)
        if mv is not None:
            Model.ModelAddMetadata(b, mv)
        Model.ModelAddVersion(b, 3)
        Model.ModelAddOperatorCodes(b, cv)
        Model.ModelAddSubgraphs(b, sgv)
        Model.ModelAddDescription(b, desc)
        Model.ModelAddBuffers(b, bv)
        m = Model.ModelEnd(b)
        b.Finish(m, b"TFL3")
        return bytes(b.Output())


# ---------------------------------------------------------------------------------------------
# operator helpers (each returns the output tensor)
def _rs(rng, lo=0.002, hi=0.2):
    return float(np.float32(rng.uniform(lo, hi)))


def _zp(rng, dtype):
    if dtype == "int8":
        return rng.choice([0, 0, -128, 127, rng.randrange(-128, 128)])
    if dtype == "uint8":
        return rng.choice([0, 128, 255, rng.randrange(0, 256)])
    return 0


def _wdata(rng, shape, dtype="int8"):
    n = int(np.prod(shape))
    mode = rng.choice(["rand", "small", "sparse", "const"])
    lo, hi = (-127, 127) if dtype == "int8" else (0, 255) if dtype == "uint8" else (-32767, 32767)
    r = np.random.RandomState(rng.getrandbits(31))
    if mode == "rand":
        d = r.randint(lo, hi + 1, n)
    elif mode == "small":
        d = r.randint(-3, 4, n) + (0 if dtype != "uint8" else 128)
    elif mode == "sparse":
        d = r.randint(lo, hi + 1, n) * (r.rand(n) < 0.2)
        if dtype == "uint8":
            d = d + (r.rand(n) >= 0.2) * 0
    else:
        d = np.full(n, rng.randrange(lo, hi + 1))
    return np.clip(d, lo, hi).reshape(shape)


def out_hw(h, w, kh, kw, sh, sw, dh, dw, padding):
    ekh, ekw = (kh - 1) * dh + 1, (kw - 1) * dw + 1
    if padding == "SAME":
        return -(-h // sh), -(-w // sw)
    return (h - ekh) // sh + 1, (w - ekw) // sw + 1


def conv2d(net, rng, x, oc, k=(3, 3), s=(1, 1), d=(1, 1), padding="SAME", act="NONE", per_axis=None, bias=True,
           out_dtype=None, wdtype=None, share=None, groups=1):
    n, h, w, c = x.shape
    if share is not None:      # reuse the filter (and bias) constants of an earlier convolution
        oh, ow = out_hw(h, w, k[0], k[1], s[0], s[1], d[0], d[1], padding)
        od = out_dtype or x.dtype
        y = net.tensor([n, oh, ow, oc], od, _rs(rng, 0.01, 0.3), _zp(rng, od))
        net.op("CONV_2D", [x] + list(share), [y], dict(Padding=PADDING[padding], StrideW=s[1], StrideH=s[0], DilationWFactor=d[1],
                                                       DilationHFactor=d[0], FusedActivationFunction=ACT[act]))
        return y
    wdtype = wdtype or ("uint8" if x.dtype == "uint8" else "int8")
    if per_axis is None:
        per_axis = x.dtype != "uint8" and rng.random() < 0.5
    wscale = [_rs(rng, 0.001, 0.05) for _ in range(oc)] if per_axis else _rs(rng, 0.001, 0.05)
    wzp = [0] * oc if per_axis else (0 if wdtype == "int8" else rng.randrange(100, 156))
    # grouped convolution: the filters see c / groups input channels each (the schema has no field for it)
    wt = net.tensor([oc, k[0], k[1], c // groups], wdtype, wscale, wzp, _wdata(rng, [oc, k[0], k[1], c // groups], wdtype), qdim=0)
    ins = [x, wt]
    if bias:
        bs = [x.scale * ws for ws in wscale] if per_axis else x.scale * wscale
        bdt = "int64" if x.dtype == "int16" else "int32"
        bd = np.random.RandomState(rng.getrandbits(31)).randint(-2000, 2000, oc)
        ins.append(net.tensor([oc], bdt, bs, [0] * oc if per_axis else 0, bd, qdim=0))
    oh, ow = out_hw(h, w, k[0], k[1], s[0], s[1], d[0], d[1], padding)
    od = out_dtype or x.dtype
    y = net.tensor([n, oh, ow, oc], od, _rs(rng, 0.01, 0.3), _zp(rng, od))
    net.op("CONV_2D", ins, [y], dict(Padding=PADDING[padding], StrideW=s[1], StrideH=s[0], DilationWFactor=d[1],
                                     DilationHFactor=d[0], FusedActivationFunction=ACT[act]))
    return y


def depthwise(net, rng, x, k=(3, 3), s=(1, 1), d=(1, 1), padding="SAME", act="NONE", mult=1, per_axis=None):
    n, h, w, c = x.shape
    oc = c * mult
    wdtype = "uint8" if x.dtype == "uint8" else "int8"
    if per_axis is None:
        per_axis = x.dtype != "uint8" and rng.random() < 0.5
    wscale = [_rs(rng, 0.001, 0.05) for _ in range(oc)] if per_axis else _rs(rng, 0.001, 0.05)
    wzp = [0] * oc if per_axis else (0 if wdtype == "int8" else rng.randrange(100, 156))
    wt = net.tensor([1, k[0], k[1], oc], wdtype, wscale, wzp, _wdata(rng, [1, k[0], k[1], oc], wdtype), qdim=3)
    bs = [x.scale * ws for ws in wscale] if per_axis else x.scale * wscale
    bdt = "int64" if x.dtype == "int16" else "int32"
    bt = net.tensor([oc], bdt, bs, [0] * oc if per_axis else 0,
                    np.random.RandomState(rng.getrandbits(31)).randint(-2000, 2000, oc), qdim=0)
    oh, ow = out_hw(h, w, k[0], k[1], s[0], s[1], d[0], d[1], padding)
    y = net.tensor([n, oh, ow, oc], x.dtype, _rs(rng, 0.01, 0.3), _zp(rng, x.dtype))
    net.op("DEPTHWISE_CONV_2D", [x, wt, bt], [y],
           dict(Padding=PADDING[padding], StrideW=s[1], StrideH=s[0], DepthMultiplier=mult, DilationWFactor=d[1],
                DilationHFactor=d[0], FusedActivationFunction=ACT[act]))
    return y


def fully_connected(net, rng, x, oc, act="NONE", bias=True):
    ic = x.shape[-1]
    wdtype = "uint8" if x.dtype == "uint8" else "int8"
    ws = _rs(rng, 0.001, 0.05)
    wt = net.tensor([oc, ic], wdtype, ws, 0 if wdtype == "int8" else 128, _wdata(rng, [oc, ic], wdtype))
    ins = [x, wt]
    if bias:
        bdt = "int64" if x.dtype == "int16" else "int32"
        ins.append(net.tensor([oc], bdt, x.scale * ws, 0, np.random.RandomState(rng.getrandbits(31)).randint(-2000, 2000, oc)))
    else:
        ins.append(None)
    y = net.tensor(list(x.shape[:-1]) + [oc], x.dtype, _rs(rng, 0.01, 0.3), _zp(rng, x.dtype))
    net.op("FULLY_CONNECTED", ins, [y], dict(FusedActivationFunction=ACT[act], KeepNumDims=len(x.shape) > 2))
    return y


def pool(net, rng, x, kind="MAX_POOL_2D", k=(2, 2), s=(2, 2), padding="VALID", act="NONE", same_quant=True):
    n, h, w, c = x.shape
    oh, ow = out_hw(h, w, k[0], k[1], s[0], s[1], 1, 1, padding)
    if same_quant:
        y = net.tensor([n, oh, ow, c], x.dtype, x.scale, x.zp)
    else:
        y = net.tensor([n, oh, ow, c], x.dtype, _rs(rng, 0.01, 0.3), _zp(rng, x.dtype))
    net.op(kind, [x], [y], dict(Padding=PADDING[padding], StrideW=s[1], StrideH=s[0], FilterWidth=k[1], FilterHeight=k[0],
                                FusedActivationFunction=ACT[act]))
    return y


def elementwise(net, rng, kind, a, b, act="NONE", out_shape=None):
    shp = out_shape or ([max(p, q) for p, q in zip(a.shape, b.shape)] if len(a.shape) == len(b.shape) else list(a.shape))
    y = net.tensor(shp, a.dtype, _rs(rng, 0.01, 0.5), _zp(rng, a.dtype))
    opts = dict(FusedActivationFunction=ACT[act])
    if kind in ("MINIMUM", "MAXIMUM"):
        opts = {}
        y.scale, y.zp = a.scale, a.zp
    net.op(kind, [a, b], [y], opts)
    return y


def const_like(net, rng, shape, dtype, scale=None, zp=None):
    return net.tensor(shape, dtype, scale if scale is not None else _rs(rng), zp if zp is not None else _zp(rng, dtype),
                      _wdata(rng, shape, dtype if dtype != "int16" else "int16"))


def unary(net, rng, kind, x, opts=None, out_scale=None, out_zp=None, out_dtype=None):
    od = out_dtype or x.dtype
    if kind == "LOGISTIC":
        sc, zp = (1.0 / 256, -128) if od == "int8" else (1.0 / 256, 0) if od == "uint8" else (1.0 / 32768, 0)
    elif kind == "TANH":
        sc, zp = (1.0 / 128, 0) if od == "int8" else (1.0 / 128, 128) if od == "uint8" else (1.0 / 32768, 0)
    elif kind == "SOFTMAX":
        sc, zp = (1.0 / 256, -128) if od == "int8" else (1.0 / 256, 0) if od == "uint8" else (1.0 / 32768, 0)
    elif kind in ("RELU", "RELU6", "RELU_N1_TO_1"):
        sc, zp = x.scale, x.zp
    else:
        sc, zp = _rs(rng, 0.01, 0.3), _zp(rng, od)
    if out_scale is not None:
        sc = out_scale
    if out_zp is not None:
        zp = out_zp
    y = net.tensor(list(x.shape), od, sc, zp)
    net.op(kind, [x], [y], opts or {})
    return y


def reshape(net, rng, x, shape):
    y = net.tensor(shape, x.dtype, x.scale, x.zp)
    st = net.tensor([len(shape)], "int32", None, None, shape)
    net.op("RESHAPE", [x, st], [y], dict(NewShape=list(shape)))
    return y


def concat(net, rng, xs, axis=3, requant=False):
    shp = list(xs[0].shape)
    shp[axis] = sum(t.shape[axis] for t in xs)
    if requant:
        y = net.tensor(shp, xs[0].dtype, _rs(rng, 0.01, 0.3), _zp(rng, xs[0].dtype))
    else:
        y = net.tensor(shp, xs[0].dtype, xs[0].scale, xs[0].zp)
    net.op("CONCATENATION", xs, [y], dict(Axis=axis, FusedActivationFunction=0))
    return y


def pad(net, rng, x, pads):
    shp = [d + p[0] + p[1] for d, p in zip(x.shape, pads)]
    pt = net.tensor([len(pads), 2], "int32", None, None, pads)
    y = net.tensor(shp, x.dtype, x.scale, x.zp)
    net.op("PAD", [x, pt], [y], {})
    return y


def strided_slice(net, rng, x, begin, end):
    shp = [e - b for b, e in zip(begin, end)]
    bt = net.tensor([len(begin)], "int32", None, None, begin)
    et = net.tensor([len(end)], "int32", None, None, end)
    st = net.tensor([len(end)], "int32", None, None, [1] * len(end))
    y = net.tensor(shp, x.dtype, x.scale, x.zp)
    net.op("STRIDED_SLICE", [x, bt, et, st], [y], dict(BeginMask=0, EndMask=0, EllipsisMask=0, NewAxisMask=0, ShrinkAxisMask=0))
    return y


def mean(net, rng, x, axes=(1, 2), keep=True):
    shp = [1 if i in axes else d for i, d in enumerate(x.shape)] if keep else [d for i, d in enumerate(x.shape) if i not in axes]
    at = net.tensor([len(axes)], "int32", None, None, list(axes))
    y = net.tensor(shp, x.dtype, _rs(rng, 0.01, 0.3), _zp(rng, x.dtype))
    net.op("MEAN", [x, at], [y], dict(KeepDims=keep))
    return y


def resize(net, rng, x, kind, factor=2, align=False, half=False):
    n, h, w, c = x.shape
    oh, ow = h * factor, w * factor
    st = net.tensor([2], "int32", None, None, [oh, ow])
    y = net.tensor([n, oh, ow, c], x.dtype, x.scale, x.zp)
    net.op(kind, [x, st], [y], dict(AlignCorners=align, HalfPixelCenters=half))
    return y


def transpose(net, rng, x, perm):
    shp = [x.shape[p] for p in perm]
    pt = net.tensor([len(perm)], "int32", None, None, list(perm))
    y = net.tensor(shp, x.dtype, x.scale, x.zp)
    net.op("TRANSPOSE", [x, pt], [y], {})
    return y


def quantize(net, rng, x, dtype=None):
    y = net.tensor(list(x.shape), dtype or x.dtype, _rs(rng, 0.01, 0.3), _zp(rng, dtype or x.dtype))
    net.op("QUANTIZE", [x], [y], {})
    return y


def transpose_conv(net, rng, x, oc, k=(3, 3), s=(2, 2), padding="SAME"):
    n, h, w, c = x.shape
    if padding == "SAME":
        oh, ow = h * s[0], w * s[1]
    else:
        oh, ow = (h - 1) * s[0] + k[0], (w - 1) * s[1] + k[1]
    ws = _rs(rng, 0.001, 0.05)
    wt = net.tensor([oc, k[0], k[1], c], "int8", ws, 0, _wdata(rng, [oc, k[0], k[1], c]))
    ot = net.tensor([4], "int32", None, None, [n, oh, ow, oc])
    bt = net.tensor([oc], "int32", x.scale * ws, 0, np.random.RandomState(rng.getrandbits(31)).randint(-2000, 2000, oc))
    y = net.tensor([n, oh, ow, oc], x.dtype, _rs(rng, 0.01, 0.3), _zp(rng, x.dtype))
    net.op("TRANSPOSE_CONV", [ot, wt, x, bt], [y], dict(Padding=PADDING[padding], StrideW=s[1], StrideH=s[0]), version=3)
    return y


def cpu_only(net, rng, x, kind=None):
    """an operator Vela cannot place on the NPU; keeps shape/type"""
    kind = kind or rng.choice(["CUSTOM", "FLOAT_ROUNDTRIP", "SQUARED_DIFFERENCE_SELF", "L2_NORMALIZATION"])
    if kind == "CUSTOM":
        y = net.tensor(list(x.shape), x.dtype, x.scale, x.zp)
        code = rng.choice(["VerifThirdPartyOp", "VerifOtherOp", "AnotherVendorOp"])
        # option bytes: some, none (empty vector), or the field absent altogether (it is optional)
        net.op("CUSTOM", [x], [y], custom_code=code,
               custom_options=b"\x01\x02\x03verif\x00" if code[0] == "V" else (b"" if rng.random() < 0.5 else None))
        return y
    if kind == "FLOAT_ROUNDTRIP":
        # operator versions vary from one instance to the next: a model may hold one operator type at two versions
        f = net.tensor(list(x.shape), "float32")
        net.op("DEQUANTIZE", [x], [f], {}, version=rng.choice([2, 3]))
        g = net.tensor(list(x.shape), "float32")
        net.op("FLOOR", [f], [g])
        y = net.tensor(list(x.shape), x.dtype, x.scale, x.zp)
        net.op("QUANTIZE", [g], [y], {}, version=rng.choice([1, 2]))
        return y
    if kind == "L2_NORMALIZATION":
        y = net.tensor(list(x.shape), x.dtype, 1.0 / 128, 0 if x.dtype == "int8" else 128)
        net.op("L2_NORMALIZATION", [x], [y], dict(FusedActivationFunction=0))
        return y
    y = net.tensor(list(x.shape), x.dtype, _rs(rng, 0.01, 0.3), _zp(rng, x.dtype))
    net.op("SQUARED_DIFFERENCE", [x, x], [y], {})
    return y


# ---------------------------------------------------------------------------------------------
# network families
def _dtype(rng, allow16=True):
    return rng.choice(["int8", "int8", "int8", "uint8"] + (["int16"] if allow16 else []))


def _inp(net, rng, shape, dtype):
    sc = _rs(rng, 0.005, 0.1)
    return net.input(shape, dtype, sc, _zp(rng, dtype), name="input%d" % len(net.inputs))


def fam_conv_chain(rng, big=False):
    """chain of 1..6 convolutions / depthwise / pools: drives striping, cascades, weight buffering"""
    net = Net("conv_chain")
    dt = _dtype(rng)
    if big:
        h, w, c = rng.choice([(64, 64, 8), (96, 96, 8), (100, 32, 16), (48, 80, 16), (128, 16, 24), (57, 41, 12)])
    else:
        h, w, c = rng.randrange(1, 34), rng.randrange(1, 34), rng.choice([1, 2, 3, 4, 8, 13, 16, 17, 32, 40])
    x = _inp(net, rng, [1, h, w, c], dt)
    nl = rng.randrange(1, 7 if big else 5)
    for i in range(nl):
        n, h, w, c = x.shape
        kind = rng.choice(["conv", "conv", "conv", "dw", "maxpool", "avgpool", "conv1x1"])
        kh = rng.choice([1, 2, 3, 3, 3, 5, 7])
        kw = rng.choice([1, 2, 3, 3, 3, 5, 7]) if rng.random() < 0.3 else kh
        sh = rng.choice([1, 1, 1, 2, 2, 3])
        sw = sh if rng.random() < 0.8 else rng.choice([1, 2, 3])
        dh = dw = rng.choice([1, 1, 1, 2]) if sh == 1 and sw == 1 else 1
        if sh == 1 and sw == 1 and rng.random() < 0.25:
            dh, dw = rng.choice([(2, 1), (1, 2)])      # asymmetric dilation is legal and rare
        padding = rng.choice(["SAME", "SAME", "VALID"])
        if padding == "VALID" and ((kh - 1) * dh + 1 > h or (kw - 1) * dw + 1 > w):
            padding = "SAME"
        act = rng.choice(["NONE", "NONE", "RELU", "RELU6", "RELU_N1_TO_1"])
        if kind == "conv":
            oc = rng.choice([1, 3, 8, 16, 24, 32, 48, 64] if big else [1, 2, 3, 5, 8, 16, 17, 32, 33])
            x = conv2d(net, rng, x, oc, (kh, kw), (sh, sw), (dh, dw), padding, act)
        elif kind == "conv1x1":
            s1 = rng.choice([1, 1, 2, 2, 3])
            x = conv2d(net, rng, x, rng.choice([4, 8, 16, 32, 64]), (1, 1), (s1, s1), (1, 1), "SAME", act)
        elif kind == "dw":
            x = depthwise(net, rng, x, (kh, kw), (sh, sw), (dh, dw), padding, act)
        else:
            k2 = rng.choice([2, 2, 3])
            s2 = rng.choice([1, 2, 2])
            pd = rng.choice(["SAME", "VALID"])
            if pd == "VALID" and (k2 > h or k2 > w):
                pd = "SAME"
            x = pool(net, rng, x, "MAX_POOL_2D" if kind == "maxpool" else "AVERAGE_POOL_2D", (k2, k2), (s2, s2), pd)
        if min(x.shape) < 1:
            return None
    net.output(x)
    return net


SINGLE_KINDS = ["conv", "dw", "fc", "maxpool", "avgpool", "add", "sub", "mul", "logistic", "tanh", "lrelu", "hswish",
                "softmax", "mean", "resize_bilinear", "resize_nearest", "quantize", "tconv", "reshape", "pad", "pad_bc",
                "slice", "concat", "minimum", "maximum", "relu", "abs", "add_bcast", "mul_scalar", "transpose", "transpose_c", "conv_head", "prelu",
                "conv_dil", "dw_dil", "avgpool_s4", "split", "mul_max", "relu_chain", "slice_conv",
                "mean_axis", "pool_big", "conv_stride_asym", "squeeze_expand", "ew16",
                "concat_hw", "pad_conv", "fc_batch", "tconv_var", "resize_x", "ew_rank", "conv_big_kernel", "pool_then_ew",
                "splitv", "slice_op", "unpack_pack", "sqdiff", "argmax", "quant_chain",
                "mean_big", "pad_pool", "slice_masks", "dw_mult", "conv_1d", "exp", "rsqrt", "conv_groups", "pool_global_stride", "shape_op",
                "ew_self", "concat_dup", "ew_bcast2", "split_partial", "reshape_fan", "resize_hp16"]


def fam_single_op(rng, kind=None):
    """one operator of a given (or random) kind with corner shapes"""
    net = Net("single")
    only8 = bool(kind) and kind.endswith("@8")      # "single:conv@8": 8-bit data types only
    onlyu8 = bool(kind) and kind.endswith("@u8")    # "single:concat@u8": uint8 (legacy quantisation) only
    if only8:
        kind = kind[:-2]
    if onlyu8:
        kind = kind[:-3]
    dt = _dtype(rng, allow16=not only8)
    if onlyu8:
        dt = "uint8"
    if kind in ("hswish",):
        dt = rng.choice(["int8", "uint8"])
    kind = kind or rng.choice(SINGLE_KINDS)
    h, w, c = rng.randrange(1, 20), rng.randrange(1, 20), rng.choice([1, 2, 3, 4, 7, 8, 16, 17, 32, 64])
    net.name = "single_" + kind
    if kind == "fc":
        x = _inp(net, rng, [rng.choice([1, 1, 2, 4]), rng.choice([1, 8, 16, 33, 100, 256])], dt)
        y = fully_connected(net, rng, x, rng.choice([1, 2, 10, 16, 64, 100]), bias=rng.random() < 0.8)
    elif kind == "conv_head":
        # classifier head after global pooling: 1x1 CONV_2D on a [1,1,1,C] input (Vela rewrites it to a FullyConnected
        # whose original_type stays Conv2DBias, tflite_graph_optimiser.convert_conv_to_fc)
        x = _inp(net, rng, [1, 1, 1, rng.choice([8, 16, 17, 32, 64, 100])], dt)
        y = conv2d(net, rng, x, rng.choice([2, 8, 10, 16, 33]), (1, 1), (1, 1), (1, 1), rng.choice(["SAME", "VALID"]),
                   rng.choice(["NONE", "RELU"]))
    elif kind in ("conv_dil", "dw_dil"):
        # dilations the hardware has (1, 2) and larger ones that Vela realises by widening the kernel with zeros
        d = rng.choice([(2, 2), (1, 2), (2, 1), (3, 3), (4, 4), (3, 1), (1, 4), (3, 2), (6, 6)])
        kk = rng.choice([(3, 3), (2, 2), (3, 1), (1, 3), (2, 3)])
        hh = max(h, (kk[0] - 1) * d[0] + 2)
        ww = max(w, (kk[1] - 1) * d[1] + 2)
        x = _inp(net, rng, [1, hh, ww, c], dt)
        pad_mode = rng.choice(["SAME", "VALID"])
        if kind == "conv_dil":
            y = conv2d(net, rng, x, rng.choice([1, 4, 8, 16]), kk, (1, 1), d, pad_mode, rng.choice(["NONE", "RELU"]))
        else:
            y = depthwise(net, rng, x, kk, (1, 1), d, pad_mode)
    elif kind == "avgpool_s4":
        k_ = rng.choice([4, 4, 5, 8])
        hh, ww = k_ * rng.randrange(1, 4), k_ * rng.randrange(1, 4)
        x = _inp(net, rng, [1, hh, ww, c], dt)
        y = pool(net, rng, x, "AVERAGE_POOL_2D", (k_, k_), (k_, k_), "VALID")
    elif kind == "split":
        axis = rng.choice([3, 3, 2, 1])
        n_ = rng.choice([2, 2, 3])
        shp = [1, h, w, c]
        shp[axis] = n_ * max(1, shp[axis] // n_) if axis != 3 else n_ * rng.choice([4, 8, 16])
        x = _inp(net, rng, shp, dt)
        ax = net.tensor([], "int32", None, None, [axis], name="split_axis")
        part = list(shp)
        part[axis] = shp[axis] // n_
        parts = [net.tensor(list(part), dt, x.scale, x.zp) for _ in range(n_)]
        net.op("SPLIT", [ax, x], parts, dict(NumSplits=n_))
        outs_ = []
        for p_ in parts:
            ch = rng.choice(["relu", "conv", "none", "add"])
            if ch == "relu":
                p_ = unary(net, rng, "RELU", p_)
            elif ch == "conv":
                p_ = conv2d(net, rng, p_, 4, (1, 1))
            elif ch == "add":
                p_ = elementwise(net, rng, "ADD", p_, const_like(net, rng, [1, 1, 1, part[3]], dt))
            outs_.append(p_)
        net.output(*outs_)
        return net
    elif kind == "slice_conv":
        # a crop (STRIDED_SLICE with unit strides) along height, width and / or depth folded into a padded kernel operator as a
        # read offset: the operator's padding refers to the window, not to the tensor it is cut from
        hh, ww, cc = rng.randrange(6, 16), rng.randrange(6, 16), rng.choice([4, 8, 16])
        x = _inp(net, rng, [1, hh, ww, cc], dt)
        y0, y1 = (rng.randrange(0, 4), hh - rng.randrange(0, 4)) if rng.random() < 0.7 else (0, hh)
        x0, x1 = (rng.randrange(0, 4), ww - rng.randrange(0, 4)) if rng.random() < 0.7 else (0, ww)
        c0, c1 = (0, cc) if rng.random() < 0.7 else rng.choice([(0, cc // 2), (cc // 2, cc)])
        t_ = strided_slice(net, rng, x, [0, y0, x0, c0], [1, y1, x1, c1])
        ch = rng.choice(["conv", "conv", "dw", "maxpool", "avgpool"])
        k_ = rng.choice([3, 3, 2, 5])
        if ch == "conv":
            y = conv2d(net, rng, t_, rng.choice([4, 8]), (k_, k_), (rng.choice([1, 1, 2]),) * 2, (1, 1), "SAME", rng.choice(["NONE", "RELU"]))
        elif ch == "dw":
            y = depthwise(net, rng, t_, (3, 3), (1, 1), (1, 1), "SAME")
        else:
            y = pool(net, rng, t_, "MAX_POOL_2D" if ch == "maxpool" else "AVERAGE_POOL_2D", (k_, k_), (1, 1), "SAME")
        if rng.random() < 0.3:
            net.output(y, t_)
            return net
    elif kind == "mean_axis":
        # MEAN over one or both spatial axes, with and without keeping the dimensions (different rewrites: average pool,
        # depthwise convolution, reshaped variants)
        hh, ww, cc = rng.choice([(4, 4), (7, 9), (1, 12), (12, 1), (16, 16), (3, 40), (20, 2)]) + (rng.choice([1, 3, 8, 16, 17]),)
        x = _inp(net, rng, [1, hh, ww, cc], dt)
        axes = rng.choice([(1,), (2,), (1, 2), (2, 1)])
        y = mean(net, rng, x, axes, keep=rng.random() < 0.6)
    elif kind == "pool_big":
        # pooling windows beyond 8 (VALID only) and up to 8 with SAME padding, non-square, strides 1-3
        pk = rng.choice(["MAX_POOL_2D", "AVERAGE_POOL_2D"])
        if rng.random() < 0.5:
            kh_, kw_ = rng.choice([(9, 9), (12, 3), (3, 12), (16, 16), (10, 1), (1, 10), (16, 2)])
            hh, ww = kh_ + rng.randrange(0, 6), kw_ + rng.randrange(0, 6)
            pm = "VALID"
        else:
            kh_, kw_ = rng.choice([(8, 8), (5, 7), (7, 5), (6, 6), (8, 1), (1, 8), (4, 8)])
            hh, ww = rng.randrange(3, 14), rng.randrange(3, 14)
            pm = "SAME"
        x = _inp(net, rng, [1, hh, ww, rng.choice([1, 4, 8, 16])], dt)
        st_ = rng.choice([(1, 1), (2, 2), (1, 2), (2, 1), (3, 3)])
        y = pool(net, rng, x, pk, (kh_, kw_), st_, pm)
    elif kind == "conv_stride_asym":
        x = _inp(net, rng, [1, rng.randrange(4, 16), rng.randrange(4, 16), rng.choice([3, 4, 8, 16])], dt)
        st_ = rng.choice([(2, 1), (1, 2), (3, 1), (1, 3), (3, 2), (2, 3)])
        kk = rng.choice([(3, 3), (1, 1), (2, 2), (3, 1), (1, 3), (5, 5)])
        if rng.random() < 0.6:
            y = conv2d(net, rng, x, rng.choice([4, 8, 16]), kk, st_, (1, 1), rng.choice(["SAME", "VALID"]), rng.choice(["NONE", "RELU"]))
        else:
            y = depthwise(net, rng, x, kk, st_, (1, 1), rng.choice(["SAME", "VALID"]))
    elif kind == "squeeze_expand":
        # memory-only shape changes around NPU operators (SQUEEZE / EXPAND_DIMS / RESHAPE to other ranks)
        cc = rng.choice([4, 8, 16])
        ww = rng.randrange(2, 12)
        x = _inp(net, rng, [1, 1, ww, cc], dt)
        t_ = conv2d(net, rng, x, cc, (1, 1), (1, 1), (1, 1), "SAME", "NONE")
        sq = net.tensor([1, ww, cc], dt, t_.scale, t_.zp)
        net.op("SQUEEZE", [t_], [sq], dict(SqueezeDims=[1]))
        if rng.random() < 0.5:
            sq = elementwise(net, rng, "ADD", sq, const_like(net, rng, [1, 1, cc], dt), out_shape=[1, ww, cc])
        a_ = rng.choice([1, 2])
        ax = net.tensor([], "int32", None, None, [a_], name="expand_axis")
        shp = [1, ww, cc]
        shp.insert(a_, 1)
        ex = net.tensor(shp, dt, sq.scale, sq.zp)
        net.op("EXPAND_DIMS", [sq, ax], [ex], {})
        y = unary(net, rng, "RELU", ex) if rng.random() < 0.5 else pool(net, rng, ex, "MAX_POOL_2D", (1, 1), (1, 1), "VALID")
    elif kind == "ew16":
        # 16-bit elementwise operators (add / sub / mul / min / max; symmetric quantisation as the reference requires)
        hh, ww, cc = rng.randrange(1, 10), rng.randrange(1, 10), rng.choice([1, 4, 16])
        x = net.input([1, hh, ww, cc], "int16", _rs(rng, 0.0001, 0.01), 0, name="input0")
        b_ = net.input([1, hh, ww, cc], "int16", _rs(rng, 0.0001, 0.01), 0, name="input1") if rng.random() < 0.6 else \
            net.tensor([1, 1, 1, cc], "int16", _rs(rng, 0.0001, 0.01), 0, _wdata(rng, [1, 1, 1, cc], "int16"))
        kd = rng.choice(["ADD", "SUB", "MUL", "MINIMUM", "MAXIMUM"])
        if kd in ("MINIMUM", "MAXIMUM"):
            b_.scale = x.scale
        y = elementwise(net, rng, kd, x, b_, out_shape=[1, hh, ww, cc])
        y.zp = 0
        if kd in ("MINIMUM", "MAXIMUM"):
            y.scale = x.scale
    elif kind == "concat_hw":
        # concatenation along height / width / depth of two or three feature maps, operators behind it
        axis = rng.choice([1, 2, 3, 1, 2])
        base = [1, rng.randrange(2, 9), rng.randrange(2, 9), rng.choice([3, 8, 16])]
        parts = []
        first = None
        for i_ in range(rng.choice([2, 2, 3])):
            shp = list(base)
            shp[axis] = rng.randrange(1, 7) if axis != 3 else rng.choice([1, 8, 16, 5])
            t_ = _inp(net, rng, shp, dt)
            if first is None:
                first = t_
            elif not (dt == "uint8" and rng.random() < 0.4):
                t_.scale, t_.zp = first.scale, first.zp
            if rng.random() < 0.4:
                t_ = pool(net, rng, t_, "MAX_POOL_2D", (1, 1), (1, 1), "VALID")
            parts.append(t_)
        y = concat(net, rng, parts, axis)
        if rng.random() < 0.5:
            y = conv2d(net, rng, y, 4, (rng.choice([1, 3]),) * 2, (1, 1), (1, 1), "SAME", "NONE")
    elif kind == "pad_conv":
        # PAD in front of kernel operators: paddings the hardware can absorb and paddings it cannot (wider than the kernel
        # allows, asymmetric, together with stride 2)
        hh, ww, cc = rng.randrange(3, 12), rng.randrange(3, 12), rng.choice([4, 8, 16])
        x = _inp(net, rng, [1, hh, ww, cc], dt)
        pt, pb, pl, pr = [rng.choice([0, 1, 1, 2, 3]) for _ in range(4)]
        p_ = pad(net, rng, x, [[0, 0], [pt, pb], [pl, pr], [0, 0]])
        kk = rng.choice([(3, 3), (2, 2), (5, 5), (3, 1), (1, 3), (4, 4)])
        if p_.shape[1] < kk[0] or p_.shape[2] < kk[1]:
            return None
        st_ = rng.choice([(1, 1), (1, 1), (2, 2)])
        ch = rng.choice(["conv", "conv", "dw", "maxpool", "avgpool"])
        if ch == "conv":
            y = conv2d(net, rng, p_, rng.choice([4, 8]), kk, st_, (1, 1), "VALID", rng.choice(["NONE", "RELU"]))
        elif ch == "dw":
            y = depthwise(net, rng, p_, kk, st_, (1, 1), "VALID")
        else:
            y = pool(net, rng, p_, "MAX_POOL_2D" if ch == "maxpool" else "AVERAGE_POOL_2D", kk, st_, "VALID")
    elif kind == "fc_batch":
        bsz = rng.choice([2, 3, 4, 8])
        x = _inp(net, rng, [bsz, rng.choice([8, 16, 33, 64])], dt)
        y = fully_connected(net, rng, x, rng.choice([4, 10, 16, 33]), bias=rng.random() < 0.8)
        if rng.random() < 0.4:
            y = fully_connected(net, rng, y, rng.choice([4, 8]))
    elif kind == "tconv_var":
        hh, ww, cc = rng.randrange(1, 8), rng.randrange(1, 8), rng.choice([1, 4, 8, 16])
        x = _inp(net, rng, [1, hh, ww, cc], "int8")
        kk, st_ = rng.choice([((3, 3), (2, 2)), ((2, 2), (2, 2)), ((4, 4), (2, 2)), ((1, 1), (1, 1)), ((3, 3), (1, 1)), ((5, 5), (2, 2)), ((2, 2), (1, 1))])
        y = transpose_conv(net, rng, x, rng.choice([1, 4, 8]), kk, st_, rng.choice(["SAME", "VALID"]))
    elif kind == "resize_x":
        hh, ww, cc = rng.randrange(1, 6), rng.randrange(1, 6), rng.choice([1, 4, 8, 16])
        x = _inp(net, rng, [1, hh, ww, cc], dt)
        y = resize(net, rng, x, rng.choice(["RESIZE_BILINEAR", "RESIZE_NEAREST_NEIGHBOR"]), rng.choice([2, 4, 8]),
                   align=rng.random() < 0.3, half=rng.random() < 0.4)
    elif kind == "ew_rank":
        # elementwise operators on tensors of rank 1-3 and broadcasts between ranks
        shp = rng.choice([[12], [3, 8], [2, 5, 8], [1, 7, 16], [6, 1, 4]])
        x = _inp(net, rng, shp, dt)
        bshp = rng.choice([shp, shp[-1:], [1] * len(shp), shp[-2:] if len(shp) > 1 else shp])
        b_ = _inp(net, rng, list(bshp), dt) if rng.random() < 0.5 else const_like(net, rng, list(bshp), dt)
        a_, c_ = (x, b_) if rng.random() < 0.6 else (b_, x)
        y = elementwise(net, rng, rng.choice(["ADD", "SUB", "MUL"]), a_, c_, out_shape=list(shp))
    elif kind == "conv_big_kernel":
        kk = rng.choice([(7, 7), (8, 8), (6, 3), (3, 8), (16, 1), (1, 16), (9, 9), (12, 2)])
        hh, ww = kk[0] + rng.randrange(0, 5), kk[1] + rng.randrange(0, 5)
        x = _inp(net, rng, [1, hh, ww, rng.choice([1, 3, 8])], dt)
        if rng.random() < 0.6:
            y = conv2d(net, rng, x, rng.choice([2, 8]), kk, (1, 1), (1, 1), rng.choice(["VALID", "SAME"]), "NONE")
        else:
            y = depthwise(net, rng, x, kk, (1, 1), (1, 1), rng.choice(["VALID", "SAME"]))
    elif kind == "pool_then_ew":
        # two graph inputs, kernel operators and elementwise operators reading the same tensors (shared IFMs, in-place reuse)
        hh, ww, cc = rng.randrange(2, 10), rng.randrange(2, 10), rng.choice([4, 8, 16])
        x = _inp(net, rng, [1, hh, ww, cc], dt)
        x2 = _inp(net, rng, [1, hh, ww, cc], dt)
        p1 = pool(net, rng, x, "MAX_POOL_2D", (3, 3), (1, 1), "SAME")
        p2 = pool(net, rng, x2, "MAX_POOL_2D", (2, 2), (1, 1), "SAME")      # (a padded average pool is only exact to one step)
        e1 = elementwise(net, rng, "ADD", p1, x)
        e2 = elementwise(net, rng, rng.choice(["MUL", "SUB"]), p2, x2 if rng.random() < 0.5 else p1)
        y = elementwise(net, rng, "ADD", e1, e2, rng.choice(["NONE", "RELU"]))
        if rng.random() < 0.4:
            net.output(y, e1)
            return net
    elif kind == "splitv":
        axis = rng.choice([3, 2, 1])
        shp = [1, rng.randrange(2, 9), rng.randrange(2, 9), rng.choice([8, 16, 24])]
        sizes = {3: rng.choice([[8, shp[3] - 8]] if shp[3] > 8 else [[4, 4]]), 2: [1, shp[2] - 1], 1: [shp[1] - 1, 1]}[axis]
        if sum(sizes) != shp[axis] or min(sizes) < 1:
            return None
        x = _inp(net, rng, shp, dt)
        st_ = net.tensor([len(sizes)], "int32", None, None, sizes, name="split_sizes")
        ax = net.tensor([], "int32", None, None, [axis], name="split_axis")
        parts = []
        for sz in sizes:
            ps = list(shp)
            ps[axis] = sz
            parts.append(net.tensor(ps, dt, x.scale, x.zp))
        net.op("SPLIT_V", [x, st_, ax], parts, dict(NumSplits=len(sizes)))
        outs_ = [unary(net, rng, "RELU", p_) if rng.random() < 0.5 else pool(net, rng, p_, "MAX_POOL_2D", (1, 1), (1, 1), "VALID") for p_ in parts]
        net.output(*outs_)
        return net
    elif kind == "slice_op":
        shp = [1, rng.randrange(3, 10), rng.randrange(3, 10), rng.choice([4, 8, 16])]
        x = _inp(net, rng, shp, dt)
        beg = [0, rng.randrange(0, 2), rng.randrange(0, 2), rng.choice([0, 0, shp[3] // 2])]
        size = [1, shp[1] - beg[1] - rng.randrange(0, 2), shp[2] - beg[2] - rng.randrange(0, 2), shp[3] - beg[3]]
        bt = net.tensor([4], "int32", None, None, beg, name="slice_begin")
        szt = net.tensor([4], "int32", None, None, size, name="slice_size")
        t_ = net.tensor(size, dt, x.scale, x.zp)
        net.op("SLICE", [x, bt, szt], [t_], {})
        y = conv2d(net, rng, t_, 4, (3, 3), (1, 1), (1, 1), "SAME") if rng.random() < 0.6 else unary(net, rng, "RELU", t_)
    elif kind == "unpack_pack":
        n_ = rng.choice([2, 3])
        hh, cc = rng.randrange(2, 8), rng.choice([4, 8, 16])
        x = _inp(net, rng, [n_, hh, cc], dt)
        parts = [net.tensor([hh, cc], dt, x.scale, x.zp) for _ in range(n_)]
        net.op("UNPACK", [x], parts, dict(Num=n_, Axis=0))
        parts2 = [elementwise(net, rng, "ADD", p_, const_like(net, rng, [1, cc], dt), out_shape=[hh, cc]) if rng.random() < 0.5 else p_ for p_ in parts]
        for p_ in parts2:
            p_.scale, p_.zp = x.scale, x.zp
        y = net.tensor([n_, hh, cc], dt, x.scale, x.zp)
        net.op("PACK", parts2, [y], dict(ValuesCount=n_, Axis=0))
    elif kind == "sqdiff":
        shp = [1, rng.randrange(1, 8), rng.randrange(1, 8), rng.choice([4, 8, 16])]
        x = _inp(net, rng, shp, dt)
        b_ = _inp(net, rng, shp, dt) if rng.random() < 0.6 else const_like(net, rng, [1, 1, 1, shp[3]], dt)
        y = net.tensor(shp, dt, _rs(rng, 0.05, 0.5), _zp(rng, dt))
        net.op("SQUARED_DIFFERENCE", [x, b_], [y], {})
    elif kind == "argmax":
        shp = [1, rng.randrange(1, 6), rng.randrange(1, 6), rng.choice([2, 5, 16, 33, 100])]
        x = _inp(net, rng, shp, dt)
        ax = net.tensor([], "int32", None, None, [3], name="argmax_axis")
        y = net.tensor(shp[:3], "int32", None, None)
        net.op("ARG_MAX", [x, ax], [y], dict(OutputType=2))
    elif kind == "quant_chain":
        # requantisation between the 8-bit types and between 16 and 8 bit, around a kernel operator
        shp = [1, rng.randrange(1, 8), rng.randrange(1, 8), rng.choice([4, 8, 16])]
        d0 = rng.choice(["int8", "uint8", "int16"])
        x = net.input(shp, d0, _rs(rng, 0.01, 0.2) if d0 != "int16" else _rs(rng, 0.0001, 0.001), _zp(rng, d0) if d0 != "int16" else 0, name="input0")
        d1 = rng.choice([t for t in ("int8", "uint8", "int16") if t != d0] + ["int8"])
        q1 = net.tensor(shp, d1, _rs(rng, 0.01, 0.2) if d1 != "int16" else _rs(rng, 0.0001, 0.001), _zp(rng, d1) if d1 != "int16" else 0)
        net.op("QUANTIZE", [x], [q1], {})
        t_ = q1
        if d1 != "int16" and rng.random() < 0.6:
            t_ = pool(net, rng, t_, "MAX_POOL_2D", (2, 2), (1, 1), "SAME")
        d2 = rng.choice(["int8", "uint8"])
        y = net.tensor(list(t_.shape), d2, _rs(rng, 0.01, 0.2), _zp(rng, d2))
        net.op("QUANTIZE", [t_], [y], {})
    elif kind == "mean_big":
        # MEAN over so many elements that Vela splits it into several depthwise convolutions and adds the partial sums
        # (one, two, three and more partial convolutions; a reduction over the height alone)
        hh, ww = rng.choice([(70, 64), (130, 40), (66, 66), (100, 50), (1, 5000), (80, 60), (96, 96), (150, 64), (100, 90), (200, 4), (260, 3)])
        x = _inp(net, rng, [1, hh, ww, rng.choice([1, 2, 4])], dt)
        y = mean(net, rng, x, (1,) if (ww <= 4 and rng.random() < 0.7) else (1, 2), keep=rng.random() < 0.5)
    elif kind == "pad_pool":
        # PAD in front of pooling operators (average pools fold the padding into explicit padding with their own divisor rule)
        hh, ww, cc = rng.randrange(3, 10), rng.randrange(3, 10), rng.choice([4, 8, 16])
        x = _inp(net, rng, [1, hh, ww, cc], dt)
        pt, pb, pl, pr = [rng.choice([0, 1, 1, 2]) for _ in range(4)]
        p_ = pad(net, rng, x, [[0, 0], [pt, pb], [pl, pr], [0, rng.choice([0, 0, 4])]])
        kk = rng.choice([(3, 3), (2, 2), (3, 2)])
        if p_.shape[1] < kk[0] or p_.shape[2] < kk[1]:
            return None
        y = pool(net, rng, p_, rng.choice(["MAX_POOL_2D", "AVERAGE_POOL_2D"]), kk, rng.choice([(1, 1), (2, 2)]), "VALID")
    elif kind == "slice_masks":
        # STRIDED_SLICE with begin / end masks and negative indices (unit strides), in front of an NPU operator
        shp = [1, rng.randrange(4, 10), rng.randrange(4, 10), rng.choice([4, 8, 16])]
        x = _inp(net, rng, shp, dt)
        b0 = [0, rng.randrange(0, 3), rng.randrange(0, 3), 0]
        e0 = [1, shp[1] - rng.randrange(0, 2), shp[2] - rng.randrange(0, 2), shp[3]]
        bm = rng.choice([0, 2, 4, 6, 15])
        em = rng.choice([0, 2, 4, 6, 15])
        eff_b = [0 if (bm >> i) & 1 else b0[i] for i in range(4)]
        eff_e = [shp[i] if (em >> i) & 1 else e0[i] for i in range(4)]
        e_t = [(e0[i] - shp[i]) if (i in (1, 2) and rng.random() < 0.3 and e0[i] < shp[i]) else e0[i] for i in range(4)]   # negative index
        out_shape = [eff_e[i] - eff_b[i] for i in range(4)]
        bt = net.tensor([4], "int32", None, None, b0, name="ss_begin")
        et = net.tensor([4], "int32", None, None, e_t, name="ss_end")
        st_ = net.tensor([4], "int32", None, None, [1, 1, 1, 1], name="ss_strides")
        t_ = net.tensor(out_shape, dt, x.scale, x.zp)
        net.op("STRIDED_SLICE", [x, bt, et, st_], [t_], dict(BeginMask=bm, EndMask=em, EllipsisMask=0, NewAxisMask=0, ShrinkAxisMask=0))
        y = conv2d(net, rng, t_, 4, (3, 3), (1, 1), (1, 1), "SAME") if rng.random() < 0.6 else unary(net, rng, "RELU", t_)
    elif kind == "dw_mult":
        x = _inp(net, rng, [1, rng.randrange(3, 10), rng.randrange(3, 10), 1], dt)
        y = depthwise(net, rng, x, (rng.choice([1, 3]),) * 2, (1, 1), (1, 1), rng.choice(["SAME", "VALID"]), mult=rng.choice([2, 4, 8, 16]))
    elif kind == "conv_1d":
        # one row / one column feature maps with 1-D kernels (the Conv1D accumulator layout)
        if rng.random() < 0.5:
            x = _inp(net, rng, [1, 1, rng.randrange(4, 40), rng.choice([4, 8, 16])], dt)
            kk, st_ = (1, rng.choice([1, 3, 5])), (1, rng.choice([1, 2]))
        else:
            x = _inp(net, rng, [1, rng.randrange(4, 40), 1, rng.choice([4, 8, 16])], dt)
            kk, st_ = (rng.choice([1, 3, 5]), 1), (rng.choice([1, 2]), 1)
        y = conv2d(net, rng, x, rng.choice([4, 8, 32]), kk, st_, (1, 1), rng.choice(["SAME", "VALID"]), rng.choice(["NONE", "RELU"]))
        if rng.random() < 0.4:
            y = conv2d(net, rng, y, 8, kk, (1, 1), (1, 1), "SAME", "NONE")
    elif kind in ("softmax",):
        x = _inp(net, rng, [1, rng.choice([2, 10, 64, 100])] if rng.random() < 0.6 else [1, h, w, c], dt)
        y = unary(net, rng, "SOFTMAX", x, dict(Beta=1.0))
    else:
        x = _inp(net, rng, [1, h, w, c], dt)
        if kind == "conv":
            y = conv2d(net, rng, x, rng.choice([1, 3, 8, 16, 33]), (rng.choice([1, 2, 3, 4]), rng.choice([1, 2, 3, 4])),
                       (rng.choice([1, 2, 3]), rng.choice([1, 2, 3])), (1, 1), "SAME", rng.choice(["NONE", "RELU", "RELU6"]))
        elif kind == "dw":
            y = depthwise(net, rng, x, (rng.choice([1, 2, 3]), rng.choice([1, 2, 3])), (rng.choice([1, 2]),) * 2, (1, 1), "SAME",
                          mult=1 if c > 1 else rng.choice([1, 2, 4]))
        elif kind in ("maxpool", "avgpool"):
            k = rng.choice([1, 2, 3, 4])
            y = pool(net, rng, x, "MAX_POOL_2D" if kind == "maxpool" else "AVERAGE_POOL_2D", (k, k), (rng.choice([1, 2]),) * 2, "SAME")
        elif kind in ("add", "sub", "mul", "minimum", "maximum"):
            b = _inp(net, rng, [1, h, w, c], dt) if rng.random() < 0.6 else const_like(net, rng, [1, h, w, c], dt)
            y = elementwise(net, rng, kind.upper(), x, b, rng.choice(["NONE", "RELU"]) if kind in ("add", "sub", "mul") else "NONE")
        elif kind == "add_bcast":
            b = _inp(net, rng, rng.choice([[1, 1, 1, c], [1, 1, w, c], [1, h, 1, 1], [1, 1, 1, 1]]), dt)
            a_, b_ = (x, b) if rng.random() < 0.5 else (b, x)      # the broadcast operand first: reversed operands on the NPU
            y = elementwise(net, rng, rng.choice(["ADD", "MUL", "SUB"]), a_, b_, out_shape=[1, h, w, c])
        elif kind == "mul_scalar":
            b = const_like(net, rng, [1, 1, 1, 1] if rng.random() < 0.5 else [], dt)
            a_, b_ = (x, b) if rng.random() < 0.5 else (b, x)
            y = elementwise(net, rng, rng.choice(["ADD", "MUL", "SUB"]), a_, b_, out_shape=[1, h, w, c])
        elif kind == "logistic":
            y = unary(net, rng, "LOGISTIC", x)
        elif kind == "tanh":
            y = unary(net, rng, "TANH", x)
        elif kind == "lrelu":
            y = unary(net, rng, "LEAKY_RELU", x, dict(Alpha=float(np.float32(rng.choice([0.01, 0.1, 0.2, 0.5, 1.5, -0.3])))))
        elif kind == "hswish":
            y = unary(net, rng, "HARD_SWISH", x)
        elif kind == "prelu":
            # per-channel slopes: all below 1, all at or above 1, straddling 1 (the three rewrites differ), or uniform
            c_ = x.shape[-1]
            a_sc = _rs(rng, 0.004, 0.02)
            a_zp = rng.choice([0, 0, -20, 17]) if x.dtype == "int8" else 128 if x.dtype == "uint8" else 0
            lo_, hi_ = (-128, 127) if x.dtype == "int8" else (0, 255) if x.dtype == "uint8" else (-32767, 32767)
            mode_ = rng.choice(["below1", "above1", "straddle", "straddle", "uniform", "negative"])
            rr = np.random.RandomState(rng.getrandbits(31))
            real = {"below1": rr.uniform(-0.3, 0.95, c_), "above1": rr.uniform(1.0, 2.0, c_), "straddle": rr.uniform(-0.3, 2.0, c_),
                    "uniform": np.full(c_, rng.choice([0.1, 0.25, 1.5, 0.0])), "negative": rr.uniform(-1.5, -0.1, c_)}[mode_]
            if x.dtype == "int16":
                a_sc = a_sc / 256
            codes = np.clip(np.round(real / a_sc) + a_zp, lo_, hi_).astype(np.int64)
            ashape = rng.choice([[c_], [1, 1, c_]]) if len(x.shape) == 4 else [c_]
            alpha = net.tensor(ashape, x.dtype, a_sc, a_zp, codes.reshape(ashape), name="prelu_alpha")
            y = net.tensor(list(x.shape), x.dtype, _rs(rng, 0.01, 0.3) if rng.random() < 0.7 else x.scale, _zp(rng, x.dtype))
            net.op("PRELU", [x, alpha], [y], {})
        elif kind == "resize_hp16":
            # x2 bilinear resize with half-pixel centres behind an NPU operator: four depthwise convolutions whose IFM is
            # addressed through hand-made tile bases (TILE padding), with channel counts on and off the 16-channel brick
            x.shape[1], x.shape[2], x.shape[3] = rng.choice([3, 5, 6, 7]), rng.choice([3, 5, 6, 7]), rng.choice([16, 32, 16, 48, 8, 24])
            y = resize(net, rng, pool(net, rng, x, "MAX_POOL_2D", (1, 1), (1, 1), "VALID"), "RESIZE_BILINEAR", 2, align=False, half=True)
        elif kind == "ew_self":
            # both operands are the same tensor
            if rng.random() < 0.5:
                x = unary(net, rng, "RELU", x)
            y = elementwise(net, rng, rng.choice(["ADD", "MUL", "SUB", "MAXIMUM", "MINIMUM", "ADD"]), x, x, act=rng.choice(["NONE", "RELU"]))
        elif kind == "concat_dup":
            # one tensor more than once among the inputs of a concatenation
            ax_ = rng.choice([3, 3, 2, 1])
            o_ = pool(net, rng, x, "MAX_POOL_2D", (1, 1), (1, 1), "VALID") if rng.random() < 0.5 else x
            parts_ = [x, x] if rng.random() < 0.5 else [x, o_, x]
            y = concat(net, rng, parts_, axis=ax_, requant=(x.dtype == "uint8" and rng.random() < 0.3))
        elif kind == "ew_bcast2":
            # both operands are broadcast, along different axes
            hh, ww, cc = rng.choice([3, 4, 7]), rng.choice([2, 5, 8]), rng.choice([1, 4, 16])
            sa, sb = rng.choice([([1, hh, 1, cc], [1, 1, ww, cc]), ([1, hh, ww, 1], [1, 1, 1, cc]), ([1, 1, ww, 1], [1, hh, 1, cc]),
                                 ([1, hh, 1, 1], [1, 1, ww, cc])])
            x.shape[:] = sa
            b_ = _inp(net, rng, list(sb), x.dtype) if rng.random() < 0.6 else const_like(net, rng, list(sb), x.dtype)
            y = elementwise(net, rng, rng.choice(["ADD", "SUB", "MUL"]), x, b_)
        elif kind == "split_partial":
            # SPLIT whose outputs are graph outputs as they are, or partly unused
            n_ = rng.choice([2, 3, 4])
            ax_i = rng.choice([3, 3, 2, 1])
            x.shape[ax_i] = n_ * rng.choice([1, 2, 4, 8])
            ax = net.tensor([], "int32", None, None, [ax_i], name="split_axis")
            part = list(x.shape)
            part[ax_i] = x.shape[ax_i] // n_
            parts = [net.tensor(list(part), x.dtype, x.scale, x.zp) for _ in range(n_)]
            net.op("SPLIT", [ax, x], parts, dict(NumSplits=n_))
            used = [p_ for p_ in parts if rng.random() < 0.6] or parts[:1]
            for p_ in used[1:]:
                net.output(p_ if rng.random() < 0.5 else unary(net, rng, "RELU", p_))
            y = used[0]
        elif kind == "reshape_fan":
            # a memory-only operator whose result has an NPU reader and a CPU reader and is a graph output
            x2 = unary(net, rng, "RELU", x)
            n_el = x2.shape[1] * x2.shape[2] * x2.shape[3]
            r = reshape(net, rng, x2, [1, n_el] if rng.random() < 0.5 else [1, 1, x2.shape[1] * x2.shape[2], x2.shape[3]])
            a_ = unary(net, rng, "RELU6", r)
            b_ = cpu_only(net, rng, r)
            if rng.random() < 0.5:
                net.output(r)
            net.output(b_)
            y = a_
        elif kind == "conv_groups":
            g_ = rng.choice([2, 2, 4, 3])
            cg = rng.choice([1, 2, 4, 8])
            x.shape[3] = g_ * cg
            y = conv2d(net, rng, x, g_ * rng.choice([1, 2, 4, 8]), rng.choice([(1, 1), (3, 3), (3, 3), (2, 3)]), rng.choice([(1, 1), (1, 1), (2, 2)]),
                       padding=rng.choice(["SAME", "VALID"]) if min(x.shape[1:3]) >= 3 else "SAME", act=rng.choice(["NONE", "RELU", "RELU6"]),
                       per_axis=rng.choice([True, False]) if x.dtype != "uint8" else False, bias=rng.random() < 0.8, groups=g_)
        elif kind == "pool_global_stride":
            # a pool whose window, stride and input extent coincide (stride beyond the hardware range, but a single window)
            hh, ww = rng.choice([(4, 4), (5, 7), (7, 7), (8, 8), (6, 3), (1, 9)])
            x.shape[1], x.shape[2] = hh, ww
            y = pool(net, rng, x, rng.choice(["MAX_POOL_2D", "AVERAGE_POOL_2D"]), (hh, ww), (hh, ww), rng.choice(["VALID", "SAME"]))
        elif kind == "shape_op":
            # SHAPE of a tensor computed on the NPU, next to a consumer of that tensor
            x = unary(net, rng, "RELU", x)
            shp_t = net.tensor([len(x.shape)], "int32", None, None)
            net.op("SHAPE", [x], [shp_t], dict(OutType=2))
            y = pool(net, rng, x, "MAX_POOL_2D", (1, 1), (1, 1), "VALID")
            net.output(shp_t)
        elif kind == "exp":
            # e^x of inputs in about [-8, 2]: the output scale covers the largest value
            x.scale, x.zp = _rs(rng, 0.01, 0.04), rng.choice([0, 60, 100, 127]) if x.dtype == "int8" else x.zp
            top = math.exp(x.scale * ((127 if x.dtype == "int8" else 255) - x.zp))
            y = unary(net, rng, "EXP", x, out_scale=float(np.float32(top / 250.0)), out_zp=-128 if x.dtype == "int8" else 0)
        elif kind == "rsqrt":
            # 1/sqrt(x): defined for positive inputs only, so the input zero point is the smallest code
            x.scale, x.zp = _rs(rng, 0.005, 0.1), (-128 if x.dtype == "int8" else 0)
            y = unary(net, rng, "RSQRT", x, out_scale=float(np.float32(1.0 / math.sqrt(x.scale) / rng.choice([200.0, 250.0, 120.0]))),
                      out_zp=-128 if x.dtype == "int8" else 0)
        elif kind == "relu":
            y = unary(net, rng, rng.choice(["RELU", "RELU6"]), x)
        elif kind == "abs":
            y = unary(net, rng, "ABS", x, out_scale=x.scale, out_zp=x.zp)
        elif kind == "mul_max":
            # x -> MUL(x, alpha) -> MAXIMUM(x, .): LeakyReLU (alpha > 0) or ABS (alpha = -1) spelled with two operators
            alpha = rng.choice([0.1, 0.25, 0.5, -1.0, 0.01, 1.5])
            a_sc = abs(alpha) / 100.0
            a_t = net.tensor([] if rng.random() < 0.5 else [1, 1, 1, 1], dt, a_sc,
                             0 if dt != "uint8" else 128, [100 if alpha > 0 else -100] if dt != "uint8" else [228 if alpha > 0 else 28], name="alpha")
            m = net.tensor([1, h, w, c], dt, x.scale, x.zp)
            net.op("MUL", [x, a_t] if rng.random() < 0.5 else [a_t, x], [m], dict(FusedActivationFunction=0))
            y = net.tensor([1, h, w, c], dt, x.scale, x.zp)
            net.op("MAXIMUM", [x, m] if rng.random() < 0.5 else [m, x], [y], {})
        elif kind == "relu_chain":
            # activation operators stacked on one another and on fused activations
            t_ = x
            if rng.random() < 0.6:
                t_ = conv2d(net, rng, t_, c, (1, 1), (1, 1), (1, 1), "SAME", rng.choice(["NONE", "RELU", "RELU6", "RELU_N1_TO_1"]))
                if rng.random() < 0.7:
                    t_.scale, t_.zp = rng.choice([0.05, 0.1, 0.02]), (rng.choice([-20, 0, -100]) if dt == "int8" else rng.choice([20, 0, 100]))
            for _ in range(rng.randrange(1, 4)):
                t_ = unary(net, rng, rng.choice(["RELU", "RELU6", "RELU_N1_TO_1", "RELU"]), t_)
            y = t_
        elif kind == "mean":
            y = mean(net, rng, x, (1, 2), keep=rng.random() < 0.7)
        elif kind in ("resize_bilinear", "resize_nearest"):
            y = resize(net, rng, x, "RESIZE_BILINEAR" if kind == "resize_bilinear" else "RESIZE_NEAREST_NEIGHBOR",
                       rng.choice([2, 2, 4]), align=rng.random() < 0.3, half=rng.random() < 0.3)
        elif kind == "quantize":
            y = quantize(net, rng, x)
        elif kind == "transpose":
            # memory-only operator followed (usually) by something that consumes the transposed tensor on the NPU
            if rng.random() < 0.6:
                hh = rng.choice([4, 6, 8, 12])
                x.shape[1], x.shape[2] = hh, hh          # square maps exercise the brick-format decision
            y = transpose(net, rng, x, rng.choice([[0, 2, 1, 3], [0, 2, 1, 3], [0, 1, 3, 2]]) if rng.random() < 0.9 else [0, 3, 1, 2])
            nxt = rng.choice(["maxpool", "conv", "none", "maxpool"])
            if nxt == "maxpool" and min(y.shape[1:3]) >= 2:
                y = pool(net, rng, y, "MAX_POOL_2D", (3, 3) if min(y.shape[1:3]) >= 3 else (2, 2), (1, 1), "SAME")
            elif nxt == "conv":
                y = conv2d(net, rng, y, 8, (1, 1))
        elif kind == "transpose_c":
            # every shape / permutation the report lists for TRANSPOSE, incl. those that move the channel axis and ranks 2, 3
            ww, cc, hh = rng.choice([3, 5, 8, 16, 40]), rng.choice([3, 4, 8, 16, 24]), rng.choice([2, 4, 7, 12])
            shape, perm = rng.choice([([ww, cc], [1, 0]), ([hh, ww, cc], [1, 0, 2]), ([1, ww, cc], [0, 2, 1]), ([hh, 1, cc], [2, 1, 0]),
                                      ([1, hh, ww, cc], [0, 2, 1, 3]), ([1, 1, ww, cc], [0, 1, 3, 2]), ([1, hh, 1, cc], [0, 3, 2, 1])])
            net.inputs.remove(x)
            net.tensors.remove(x)
            x = _inp(net, rng, shape, dt)
            x.idx = net.tensors.index(x)
            y = transpose(net, rng, x, perm)
        elif kind == "tconv":
            y = transpose_conv(net, rng, x, rng.choice([1, 4, 8]), (3, 3) if rng.random() < 0.7 else (2, 2), (2, 2), rng.choice(["SAME", "VALID"]))
        elif kind == "reshape":
            y = reshape(net, rng, x, [1, h * w, 1, c] if rng.random() < 0.5 else [1, h * w * c])
            if rng.random() < 0.5 and len(y.shape) == 4:
                y = conv2d(net, rng, y, 8, (1, 1))
        elif kind == "pad":
            p = pad(net, rng, x, [[0, 0], [rng.randrange(0, 3), rng.randrange(0, 3)], [rng.randrange(0, 3), rng.randrange(0, 3)], [0, 0]])
            y = conv2d(net, rng, p, 8, (3, 3), (1, 1), (1, 1), "VALID") if min(p.shape[1:3]) >= 3 and rng.random() < 0.7 else p
        elif kind == "pad_bc":     # batch and channel padded by one operator (split into two by the graph optimiser)
            t = conv2d(net, rng, x, 8, (1, 1)) if rng.random() < 0.7 else x
            y = pad(net, rng, t, [[rng.randrange(0, 2), 1], [0, 0], [0, 0], [rng.choice([1, 4, 8]), rng.choice([0, 4])]])
        elif kind == "slice":
            if h < 2:
                return None
            cut = rng.randrange(1, h)
            y = strided_slice(net, rng, x, [0, 0, 0, 0], [1, cut, w, c])
            y = conv2d(net, rng, y, 4, (1, 1)) if rng.random() < 0.5 else y
        elif kind == "concat":
            b = _inp(net, rng, [1, h, w, rng.choice([1, 8, 16])], dt)
            if not (dt == "uint8" and rng.random() < 0.5):      # uint8: the reference kernel rescales differing inputs
                b.scale, b.zp = x.scale, x.zp
            y = concat(net, rng, [x, b], 3, requant=rng.random() < (0.6 if onlyu8 else 0.3))
    net.output(y)
    return net


def fam_diamond(rng):
    """branching / joining: conv -> (conv, conv|pool) -> add/concat -> conv ; exercises live ranges"""
    net = Net("diamond")
    dt = _dtype(rng, allow16=rng.random() < 0.2)
    h, w, c = rng.randrange(4, 40), rng.randrange(4, 40), rng.choice([3, 8, 16, 24])
    x = _inp(net, rng, [1, h, w, c], dt)
    a = conv2d(net, rng, x, rng.choice([8, 16, 32]), (3, 3), (1, 1), (1, 1), "SAME", "RELU")
    b1 = conv2d(net, rng, a, 16, (rng.choice([1, 3]),) * 2, (1, 1), (1, 1), "SAME")
    b2 = rng.choice([lambda: conv2d(net, rng, a, 16, (3, 3), (1, 1), (1, 1), "SAME"),
                     lambda: depthwise(net, rng, a, (3, 3)), lambda: a])()
    join = rng.choice(["add", "concat", "mul"])
    if join != "concat" and b2.shape != b1.shape:
        b2 = conv2d(net, rng, b2, 16, (1, 1))
    if join == "concat":
        b2.scale, b2.zp = b1.scale, b1.zp
        j = concat(net, rng, [b1, b2], 3)
    else:
        j = elementwise(net, rng, join.upper(), b1, b2, rng.choice(["NONE", "RELU"]))
    y = conv2d(net, rng, j, rng.choice([4, 8, 16]), (3, 3), (rng.choice([1, 2]),) * 2, (1, 1), "SAME")
    outs = [y]
    if rng.random() < 0.3:
        outs.append(b1)  # second subgraph output taken from the middle
    net.output(*outs)
    return net


def fam_branchy(rng):
    """random DAGs with skip connections, concatenations and several outputs: many live ranges of different sizes that
    overlap in time, so that the first placement of the HillClimb allocator is not optimal and its randomised search runs"""
    net = Net("branchy")
    dt = "int8"
    h, w = rng.choice([(8, 8), (16, 16), (12, 8), (6, 10)])
    x = _inp(net, rng, [1, h, w, rng.choice([3, 4, 8])], dt)
    nodes = [x]
    for _ in range(rng.randrange(6, 12)):
        ch = rng.choice(["conv", "conv", "add", "concat", "conv1"])
        a = rng.choice(nodes)
        if ch == "conv":
            t = conv2d(net, rng, a, rng.choice([8, 12, 24, 32]), (3, 3), (1, 1), (1, 1), "SAME", "NONE")
        elif ch == "conv1":
            t = conv2d(net, rng, a, rng.choice([8, 16]), (1, 1), (1, 1), (1, 1), "SAME", "NONE")
        elif ch == "add":
            same = [n for n in nodes if list(n.shape) == list(a.shape)]
            t = elementwise(net, rng, "ADD", a, rng.choice(same))
        else:
            b = rng.choice(nodes)
            b2 = net.tensor(list(b.shape), dt, a.scale, a.zp)
            if (b.scale, b.zp) != (a.scale, a.zp):
                net.op("QUANTIZE", [b], [b2], {})
            else:
                b2 = b
            t = concat(net, rng, [a, b2], 3)
        nodes.append(t)
    outs = [n for n in nodes[1:] if not any(any(n is i for i in op["inputs"]) for op in net.ops)] or [nodes[-1]]
    net.output(*outs[:4])
    return net


def fam_ew_chain(rng):
    """a chain of exactly implemented elementwise operators with changing quantisation, constants, scalars, broadcasts,
    both operand orders and fused clamps (in-place reuse, operand scaling modes, reversed operands)"""
    net = Net("ew_chain")
    dt = rng.choice(["int8", "int8", "uint8", "int16"])
    h, w, c = rng.randrange(1, 9), rng.randrange(1, 9), rng.choice([1, 4, 8, 16])
    sc16 = lambda: _rs(rng, 0.0001, 0.002)
    x = net.input([1, h, w, c], dt, sc16() if dt == "int16" else _rs(rng, 0.01, 0.2), 0 if dt == "int16" else _zp(rng, dt), name="input0")
    t = x
    for _ in range(rng.randrange(2, 6)):
        kd = rng.choice(["ADD", "SUB", "MUL", "ADD", "MINIMUM", "MAXIMUM"])
        bk = rng.choice(["const_c", "scalar", "self", "input", "const_full"])
        if bk == "const_c":
            b = net.tensor([1, 1, 1, c], dt, sc16() if dt == "int16" else _rs(rng), 0 if dt == "int16" else _zp(rng, dt), _wdata(rng, [1, 1, 1, c], dt))
        elif bk == "scalar":
            b = net.tensor([], dt, sc16() if dt == "int16" else _rs(rng), 0 if dt == "int16" else _zp(rng, dt), _wdata(rng, [], dt))
        elif bk == "self":
            b = t
        elif bk == "input":
            b = x
        else:
            b = net.tensor([1, h, w, c], dt, sc16() if dt == "int16" else _rs(rng), 0 if dt == "int16" else _zp(rng, dt), _wdata(rng, [1, h, w, c], dt))
        if kd in ("MINIMUM", "MAXIMUM"):
            if b is not t and b is not x:
                b.scale, b.zp = t.scale, t.zp
            elif (b.scale, b.zp) != (t.scale, t.zp):
                kd = "ADD"
        a_, b_ = (t, b) if rng.random() < 0.6 else (b, t)
        y = elementwise(net, rng, kd, a_, b_, rng.choice(["NONE", "NONE", "RELU"]) if kd in ("ADD", "SUB", "MUL") else "NONE", out_shape=[1, h, w, c])
        if dt == "int16":
            y.scale, y.zp = sc16() * 4, 0
        if kd in ("MINIMUM", "MAXIMUM"):
            y.scale, y.zp = t.scale, t.zp
        t = y
    net.output(t)
    return net


def fam_concat_split(rng):
    """convolutions whose outputs are concatenated (depth, height or width) and / or whose input is split again: writes at
    offsets into a shared tensor, reads at offsets out of one; kernel operators with padding on both sides"""
    net = Net("concat_split")
    dt = rng.choice(["int8", "int8", "uint8"])
    h, w, c = rng.randrange(3, 10), rng.randrange(3, 10), rng.choice([4, 8])
    x = _inp(net, rng, [1, h, w, c], dt)
    axis = rng.choice([3, 3, 1, 2])
    parts = []
    for _ in range(rng.choice([2, 2, 3])):
        ch = rng.choice(["conv", "conv", "pool", "id"])
        if ch == "conv":
            p_ = conv2d(net, rng, x, rng.choice([4, 8, 16]) if axis == 3 else 8, (rng.choice([1, 3]),) * 2, (1, 1), (1, 1), "SAME", rng.choice(["NONE", "RELU"]))
        elif ch == "pool":
            p_ = pool(net, rng, x, "MAX_POOL_2D", (3, 3), (1, 1), "SAME")
        else:
            p_ = x
        parts.append(p_)
    if axis != 3:
        parts = [p_ if p_.shape[3] == parts[0].shape[3] else conv2d(net, rng, p_, parts[0].shape[3], (1, 1)) for p_ in parts]
    for p_ in parts[1:]:
        if p_ is not x and parts[0] is not x:
            p_.scale, p_.zp = parts[0].scale, parts[0].zp
    if any(p_ is x for p_ in parts):
        for p_ in parts:
            if p_ is not x:
                p_.scale, p_.zp = x.scale, x.zp
    cat = concat(net, rng, parts, axis)
    mode = rng.choice(["conv", "split", "pool", "out"])
    if mode == "conv":
        y = conv2d(net, rng, cat, 8, (3, 3), (1, 1), (1, 1), "SAME", "NONE")
        net.output(y)
    elif mode == "pool":
        net.output(pool(net, rng, cat, "MAX_POOL_2D", (2, 2), (1, 1), "SAME"))
    elif mode == "split" and cat.shape[axis] % 2 == 0:
        ax = net.tensor([], "int32", None, None, [axis], name="split_axis")
        ps = list(cat.shape)
        ps[axis] //= 2
        halves = [net.tensor(list(ps), dt, cat.scale, cat.zp) for _ in range(2)]
        net.op("SPLIT", [ax, cat], halves, dict(NumSplits=2))
        outs_ = [conv2d(net, rng, hv, 4, (3, 3), (1, 1), (1, 1), "SAME") if rng.random() < 0.6 else unary(net, rng, "RELU", hv) for hv in halves]
        net.output(*outs_)
    else:
        net.output(cat)
    return net


def fam_mixed_cpu(rng):
    """NPU segments separated by CPU-only operators; several NPU subgraphs; duplicated inputs"""
    net = Net("mixed_cpu")
    dt = rng.choice(["int8", "int8", "uint8"])
    h, w, c = rng.randrange(2, 24), rng.randrange(2, 24), rng.choice([3, 4, 8, 16])
    x = _inp(net, rng, [1, h, w, c], dt)
    t = x
    nseg = rng.randrange(1, 4)
    for s in range(nseg):
        for _ in range(rng.randrange(1, 3)):
            ch = rng.choice(["conv", "dw", "pool", "add_self", "act"])
            if ch == "conv":
                t = conv2d(net, rng, t, rng.choice([4, 8, 16]), (3, 3), (1, 1), (1, 1), "SAME", rng.choice(["NONE", "RELU"]))
            elif ch == "dw":
                t = depthwise(net, rng, t, (3, 3))
            elif ch == "pool" and min(t.shape[1:3]) >= 2:
                t = pool(net, rng, t, "MAX_POOL_2D", (2, 2), (2, 2), "VALID")
            elif ch == "add_self":
                t = elementwise(net, rng, "ADD", t, t)
            else:
                t = unary(net, rng, rng.choice(["LOGISTIC", "TANH", "RELU"]), t)
        if s < nseg - 1 or rng.random() < 0.5:
            t = cpu_only(net, rng, t)
    outs = [t]
    if rng.random() < 0.3:
        outs.append(x if rng.random() < 0.3 else t)
    net.output(*outs)
    return net


def fam_mixed_exact(rng):
    """C01 across the CPU / NPU boundary: segments of operators the NPU implements exactly (convolution, depthwise, max
    pool, add / sub / mul, ReLU clamps) separated by CPU-only operators (third-party custom operators, a float round trip,
    L2_NORMALIZATION - uninterpreted in the reference, see refnet.standin); tensors of earlier segments and the network
    inputs are read again after a CPU operator, so several Ethos-U operators share the arena with CPU tensors"""
    net = Net("mixed_exact")
    dt = rng.choice(["int8", "int8", "uint8"])
    h, w, c = rng.randrange(2, 14), rng.randrange(2, 14), rng.choice([4, 8, 16])
    x = _inp(net, rng, [1, h, w, c], dt)
    x2 = _inp(net, rng, [1, h, w, c], dt) if rng.random() < 0.4 else None
    t = x
    keep = [x] + ([x2] if x2 is not None else [])      # same-shape tensors that may be read again later
    nseg = rng.randrange(2, 4)
    for s_ in range(nseg):
        for _ in range(rng.randrange(1, 3)):
            ch = rng.choice(["conv", "dw", "add_keep", "add_const", "relu", "mul_keep", "pool1"])
            if ch == "conv":
                t = conv2d(net, rng, t, c, (rng.choice([1, 3]),) * 2, (1, 1), (1, 1), "SAME", rng.choice(["NONE", "RELU", "RELU6"]))
            elif ch == "dw":
                t = depthwise(net, rng, t, (3, 3))
            elif ch == "add_keep":
                t = elementwise(net, rng, rng.choice(["ADD", "SUB"]), t, rng.choice(keep))
            elif ch == "mul_keep":
                t = elementwise(net, rng, "MUL", t, rng.choice(keep))
            elif ch == "add_const":
                t = elementwise(net, rng, "ADD", t, const_like(net, rng, [1, 1, 1, c], dt))
            elif ch == "pool1":
                t = pool(net, rng, t, "MAX_POOL_2D", (1, 1), (1, 1), "VALID")
            else:
                t = unary(net, rng, rng.choice(["RELU", "RELU6"]), t)
            if list(t.shape) == list(x.shape):
                keep.append(t)
        if s_ < nseg - 1:
            if rng.random() < 0.3 and len(keep) >= 2:
                t = cpu_join(net, rng, [t, rng.choice(keep)])
            else:
                t = cpu_only(net, rng, t, rng.choice(["CUSTOM", "CUSTOM", "FLOAT_ROUNDTRIP", "L2_NORMALIZATION"]))
            keep.append(t)
    outs = [t]
    if rng.random() < 0.3:
        outs.append(rng.choice(keep))
    net.output(*[o for i, o in enumerate(outs) if o not in outs[:i]])
    return net


UNSUPPORTED_KINDS = ["rank5", "rank0", "batch", "big_stride", "big_kernel", "int32_add", "float", "dyn_weights",
                     "big_dim", "no_quant", "dilation", "int16_pool", "bool", "per_axis_fc", "pool_stride4", "dw_stride4",
                     "dyn_reshape", "dyn_pad", "dyn_mean", "dyn_transpose", "dyn_slice", "dyn_resize", "dyn_split", "dyn_splitv",
                     "tconv_s3", "fc_dynw", "ew_widen16", "ew_widen32", "ew_narrow", "pad_shared_tensor", "pad_shared_buffer",
                     "reshape_requant", "reshape_5d", "squeeze_requant", "custom_multi_out"]


def fam_unsupported(rng, kind=None):
    """operators just outside / far outside what the NPU supports, plus odd ranks and dtypes (C13, C16, C11)"""
    net = Net("unsupported")
    follow = None
    if kind and "+" in kind:          # "pool_stride4+logistic": fix the operator that follows as well
        kind, follow = kind.split("+", 1)
    kind = kind or rng.choice(UNSUPPORTED_KINDS)
    net.name = "unsupported_" + kind
    dt = "int8"
    if kind == "rank5":
        x = _inp(net, rng, [1, 2, 3, 4, 5], dt)
        y = elementwise(net, rng, "ADD", x, const_like(net, rng, [1, 2, 3, 4, 5], dt))
    elif kind == "rank0":
        x = _inp(net, rng, [], dt)
        y = elementwise(net, rng, "MUL", x, const_like(net, rng, [], dt), out_shape=[])
    elif kind == "batch":
        x = _inp(net, rng, [rng.choice([2, 3]), 8, 8, 8], dt)
        y = conv2d(net, rng, x, 8, (3, 3)) if rng.random() < 0.5 else elementwise(net, rng, "ADD", x, x)
    elif kind == "big_stride":
        x = _inp(net, rng, [1, 20, 20, 4], dt)
        y = conv2d(net, rng, x, 8, (3, 3), (rng.choice([4, 5]), rng.choice([1, 4])), (1, 1), "SAME")
    elif kind == "pool_stride4":
        x = _inp(net, rng, [1, 16, 16, 8], rng.choice(["int8", "uint8"]))
        y = pool(net, rng, x, rng.choice(["MAX_POOL_2D", "AVERAGE_POOL_2D"]), (4, 4), (4, 4), "VALID")
    elif kind == "dw_stride4":
        x = _inp(net, rng, [1, 16, 16, 8], dt)
        y = depthwise(net, rng, x, (3, 3), (4, 4), (1, 1), "SAME")
    elif kind == "big_kernel":
        x = _inp(net, rng, [1, 70, 70, 2], dt)
        y = conv2d(net, rng, x, 2, (rng.choice([65, 8]), rng.choice([65, 9])), (1, 1), (1, 1), "SAME")
    elif kind == "custom_multi_out":
        # a third-party operator with several outputs between NPU operators: the later outputs are read by NPU operators
        shp = [1, rng.choice([4, 6]), rng.choice([4, 6]), rng.choice([4, 8])]
        x = _inp(net, rng, shp, dt)
        a_ = unary(net, rng, "RELU", x) if rng.random() < 0.7 else elementwise(net, rng, "ADD", x, const_like(net, rng, shp, dt))
        nout = rng.choice([2, 2, 3])
        outs_ = [net.tensor(list(shp), dt, a_.scale, a_.zp, name="custom_out%d" % k_) for k_ in range(nout)]
        net.op("CUSTOM", [a_], outs_, custom_code="VerifMultiOutOp", custom_options=b"\x01\x02")
        pick = rng.randrange(1, nout)
        y = elementwise(net, rng, "ADD", outs_[pick], const_like(net, rng, shp, dt))
        if rng.random() < 0.5:
            net.output(unary(net, rng, "RELU", outs_[0]))
    elif kind in ("reshape_requant", "reshape_5d", "squeeze_requant"):
        # a memory-only operator outside its constraints (output quantised differently from the input / a tensor of rank 5)
        # between operators the NPU runs: it must stay a CPU operator of its own
        hh, ww, cc = rng.choice([4, 6, 8]), rng.choice([4, 6]), rng.choice([4, 8])
        x = _inp(net, rng, [1, hh, ww, cc], dt)
        a_ = conv2d(net, rng, x, cc, (1, 1), (1, 1), (1, 1), "SAME") if rng.random() < 0.6 else unary(net, rng, "RELU", x)
        if kind == "reshape_5d":
            r = net.tensor([1, 1, hh, ww, cc], dt, a_.scale, a_.zp)
            net.op("RESHAPE", [a_, net.tensor([5], "int32", None, None, [1, 1, hh, ww, cc])], [r], dict(NewShape=[1, 1, hh, ww, cc]))
            y = r
        elif kind == "reshape_requant":
            r = net.tensor([1, ww, hh, cc], dt, float(np.float32(a_.scale * 2)), a_.zp)
            net.op("RESHAPE", [a_, net.tensor([4], "int32", None, None, [1, ww, hh, cc])], [r], dict(NewShape=[1, ww, hh, cc]))
            y = conv2d(net, rng, r, cc, (1, 1), (1, 1), (1, 1), "SAME") if rng.random() < 0.7 else unary(net, rng, "RELU", r)
        else:
            r = net.tensor([hh, ww, cc], dt, float(np.float32(a_.scale * 0.5)), a_.zp)
            net.op("SQUEEZE", [a_], [r], dict(SqueezeDims=[0]))
            y = unary(net, rng, "RELU", r)
    elif kind in ("pad_shared_tensor", "pad_shared_buffer"):
        # a PAD for the NPU (channel and height / width padding in one operator) and a MIRROR_PAD for the CPU with equal
        # paddings: one constant tensor read by both, or two constant tensors on one buffer
        shp = [1, rng.choice([4, 6]), rng.choice([4, 5]), rng.choice([4, 8])]
        x = _inp(net, rng, shp, "int8")
        pv = [[0, 0], [1, 1], [rng.choice([1, 2]), 1], [0, rng.choice([2, 4])]]
        pt_ = net.tensor([4, 2], "int32", None, None, pv, name="paddings")
        pt2 = pt_ if kind == "pad_shared_tensor" else net.tensor([4, 2], "int32", None, None, pv, name="mirror_paddings")
        net.dedupe_buffers = True
        oshp = [d + a + b_ for d, (a, b_) in zip(shp, pv)]
        p1 = net.tensor(oshp, "int8", x.scale, x.zp)
        net.op("PAD", [x, pt_], [p1], {})
        p2 = net.tensor(oshp, "int8", x.scale, x.zp)
        net.op("MIRROR_PAD", [x, pt2], [p2], dict(Mode=rng.choice([0, 1])))
        net.output(p2)
        y = p1
    elif kind in ("ew_widen16", "ew_widen32", "ew_narrow"):
        # an elementwise operator whose result type differs from its operand type, between two NPU operators
        it, ot = {"ew_widen16": ("int8", "int16"), "ew_widen32": ("int8", "int32"), "ew_narrow": ("int16", "int8")}[kind]
        shp = rng.choice([[1, 4, 4, 8], [1, 8, 8, 16], [1, 1, 1, 32]])
        x = _inp(net, rng, shp, it)
        y0 = elementwise(net, rng, "ADD", x, const_like(net, rng, shp, it))
        ek = rng.choice(["ADD", "ADD", "SUB", "MUL", "MAXIMUM"])
        m = net.tensor(list(shp), ot, _rs(rng, 0.01, 0.3) if ot != "int32" else None, 0 if ot != "int32" else None)
        net.op(ek, [y0, const_like(net, rng, shp, it)], [m], {} if ek == "MAXIMUM" else dict(FusedActivationFunction=0))
        c2 = net.tensor(list(shp), ot, _rs(rng, 0.01, 0.3) if ot != "int32" else None, 0 if ot != "int32" else None,
                        np.random.RandomState(rng.getrandbits(31)).randint(-100, 100, shp))
        y = net.tensor(list(shp), ot, m.scale, m.zp)
        net.op("ADD", [m, c2], [y], dict(FusedActivationFunction=0))
    elif kind == "int32_add":
        x = net.input([1, 4, 4, 8], "int32", None, None, name="input0")
        y = net.tensor([1, 4, 4, 8], "int32")
        net.op("ADD", [x, net.tensor([1, 4, 4, 8], "int32", None, None, np.arange(128))], [y], dict(FusedActivationFunction=0))
    elif kind == "float":
        x = net.input([1, 4, 4, 8], "float32", name="input0")
        y = net.tensor([1, 4, 4, 8], "float32")
        net.op("FLOOR", [x], [y])
    elif kind == "dyn_weights":
        x = _inp(net, rng, [1, 8, 8, 4], dt)
        wt = net.input([8, 3, 3, 4], "int8", 0.02, 0, name="dynw")
        y = net.tensor([1, 8, 8, 8], dt, 0.1, 0)
        bt = net.tensor([8], "int32", x.scale * 0.02, 0, np.zeros(8))
        net.op("CONV_2D", [x, wt, bt], [y], dict(Padding=0, StrideW=1, StrideH=1, DilationWFactor=1, DilationHFactor=1,
                                                  FusedActivationFunction=0))
    elif kind == "big_dim":
        x = _inp(net, rng, [1, 1, 65537, 1], dt)
        y = elementwise(net, rng, "ADD", x, x)
    elif kind == "no_quant":
        x = net.input([1, 8, 8, 4], "int8", None, None, name="input0")
        y = net.tensor([1, 8, 8, 4], "int8")
        net.op("ADD", [x, x], [y], dict(FusedActivationFunction=0))
    elif kind == "dilation":
        x = _inp(net, rng, [1, 40, 40, 4], dt)
        y = conv2d(net, rng, x, 4, (3, 3), (1, 1), (rng.choice([3, 4]), rng.choice([1, 3])), "SAME")
    elif kind == "int16_pool":
        x = _inp(net, rng, [1, 16, 16, 8], "int16")
        y = pool(net, rng, x, "AVERAGE_POOL_2D", (rng.choice([2, 8, 16]),) * 2, (1, 1), rng.choice(["SAME", "VALID"]))
    elif kind == "tconv_s3":
        # a weight-carrying operator that stays on the CPU (stride 3) and reads a tensor produced on the NPU: operands of
        # operators whose IFM is not input 0
        x = _inp(net, rng, [1, 6, 6, 4], dt)
        t = conv2d(net, rng, x, 8, (3, 3)) if rng.random() < 0.8 else x
        y = transpose_conv(net, rng, t, rng.choice([4, 8]), (3, 3), (3, 3), rng.choice(["SAME", "VALID"]))
    elif kind == "fc_dynw":
        # FULLY_CONNECTED whose weights are produced by another operator (dynamic weights), behind an NPU operator
        x = _inp(net, rng, [1, 16], dt)
        wsrc = net.input([8, 16], "int8", 0.02, 0, name="wsrc")
        wt = elementwise(net, rng, "ADD", wsrc, wsrc)
        y = net.tensor([1, 8], dt, 0.1, 0)
        net.op("FULLY_CONNECTED", [x, wt, None], [y], dict(FusedActivationFunction=0))
    elif kind.startswith("dyn_"):
        # a parameter operand that is valid TFLite but not a constant: a second graph input, or computed by another operator
        x = _inp(net, rng, [1, 4, 6, 8], dt)

        def param(shape, data, name):
            if rng.random() < 0.5:
                return net.input(shape, "int32", None, None, name=name)
            c = net.tensor(shape, "int32", None, None, data)
            z = net.tensor(shape, "int32", None, None, np.zeros(shape, dtype=np.int64))
            t = net.tensor(shape, "int32")
            net.op("ADD", [c, z], [t], dict(FusedActivationFunction=0))
            return t
        if kind == "dyn_reshape":
            y = net.tensor([1, 24, 1, 8], dt, x.scale, x.zp)
            net.op("RESHAPE", [x, param([4], [1, 24, 1, 8], "new_shape")], [y], dict(NewShape=[1, 24, 1, 8]) if rng.random() < 0.5 else {})
        elif kind == "dyn_pad":
            y = net.tensor([1, 6, 8, 8], dt, x.scale, x.zp)
            net.op("PAD", [x, param([4, 2], [[0, 0], [1, 1], [1, 1], [0, 0]], "paddings")], [y], {})
        elif kind == "dyn_mean":
            y = net.tensor([1, 1, 1, 8], dt, x.scale, x.zp)
            net.op("MEAN", [x, param([2], [1, 2], "axes")], [y], dict(KeepDims=True))
        elif kind == "dyn_transpose":
            y = net.tensor([1, 6, 4, 8], dt, x.scale, x.zp)
            net.op("TRANSPOSE", [x, param([4], [0, 2, 1, 3], "perm")], [y], {})
        elif kind == "dyn_slice":
            y = net.tensor([1, 2, 6, 8], dt, x.scale, x.zp)
            bt = param([4], [0, 1, 0, 0], "begin")
            et = net.tensor([4], "int32", None, None, [1, 3, 6, 8])
            st = net.tensor([4], "int32", None, None, [1, 1, 1, 1])
            net.op("STRIDED_SLICE", [x, bt, et, st], [y], dict(BeginMask=0, EndMask=0, EllipsisMask=0, NewAxisMask=0, ShrinkAxisMask=0))
        elif kind == "dyn_split":
            y = net.tensor([1, 4, 6, 4], dt, x.scale, x.zp)
            y2 = net.tensor([1, 4, 6, 4], dt, x.scale, x.zp)
            net.op("SPLIT", [param([], 3, "axis") if rng.random() < 0.5 else param([1], [3], "axis"), x], [y, y2], dict(NumSplits=2))
            net.output(y2)
        elif kind == "dyn_splitv":
            y = net.tensor([1, 4, 6, 3], dt, x.scale, x.zp)
            y2 = net.tensor([1, 4, 6, 5], dt, x.scale, x.zp)
            ax = net.tensor([], "int32", None, None, 3)
            net.op("SPLIT_V", [x, param([2], [3, 5], "sizes"), ax], [y, y2], dict(NumSplits=2))
            net.output(y2)
        else:
            y = net.tensor([1, 8, 12, 8], dt, x.scale, x.zp)
            net.op("RESIZE_NEAREST_NEIGHBOR" if rng.random() < 0.5 else "RESIZE_BILINEAR", [x, param([2], [8, 12], "size")], [y],
                   dict(AlignCorners=False, HalfPixelCenters=False))
    elif kind == "bool":
        x = net.input([1, 4], "bool", name="input0")
        y = net.tensor([1, 4], "bool")
        net.op("LOGICAL_NOT" if "LOGICAL_NOT" in BO else "FLOOR", [x], [y])
    else:
        x = _inp(net, rng, [1, 32], dt)
        wt = net.tensor([4, 32], "int8", [0.01, 0.02, 0.03, 0.04], [0, 0, 0, 0], _wdata(rng, [4, 32]), qdim=0)
        y = net.tensor([1, 4], dt, 0.1, 0)
        net.op("FULLY_CONNECTED", [x, wt, None], [y], dict(FusedActivationFunction=0))
    # follow by supported operators most of the time, so CPU and NPU operators are mixed and the rewrites that
    # look at a CPU-resident producer (activation fusing, LUT conversion, reshape/concat bypass) are exercised
    if len(y.shape) == 4 and y.dtype in ("int8", "uint8") and y.scale is not None and (follow or rng.random() < 0.8):
        nxt = follow or rng.choice(["conv", "logistic", "tanh", "relu", "lrelu", "hswish", "add_self", "maxpool"])
        if nxt == "conv":
            y = conv2d(net, rng, y, 4, (1, 1))
        elif nxt == "logistic":
            y = unary(net, rng, "LOGISTIC", y)
        elif nxt == "tanh":
            y = unary(net, rng, "TANH", y)
        elif nxt == "relu":
            y = unary(net, rng, rng.choice(["RELU", "RELU6"]), y)
        elif nxt == "lrelu":
            y = unary(net, rng, "LEAKY_RELU", y, dict(Alpha=float(np.float32(0.1))))
        elif nxt == "hswish" and y.dtype == "int8":
            y = unary(net, rng, "HARD_SWISH", y)
        elif nxt == "add_self":
            y = elementwise(net, rng, "ADD", y, y)
        elif min(y.shape[1:3]) >= 2:
            y = pool(net, rng, y, "MAX_POOL_2D", (2, 2), (2, 2), "VALID")
        if rng.random() < 0.4 and not follow:
            y = cpu_only(net, rng, y, "CUSTOM")
    net.output(y)
    return net


def fam_lut_heavy(rng):
    """several table-based activations and elementwise ops: LUT slot reuse, equivalence ids (C03, C14)"""
    net = Net("lut_heavy")
    dt = rng.choice(["int8", "uint8"])
    h, w, c = rng.randrange(2, 16), rng.randrange(2, 16), rng.choice([4, 8, 16])
    x = _inp(net, rng, [1, h, w, c], dt)
    t = x
    for _ in range(rng.randrange(2, 7)):
        ch = rng.choice(["sig", "tanh", "lrelu", "hswish", "conv", "add"])
        if ch == "sig":
            t = unary(net, rng, "LOGISTIC", t)
        elif ch == "tanh":
            t = unary(net, rng, "TANH", t)
        elif ch == "lrelu":
            t = unary(net, rng, "LEAKY_RELU", t, dict(Alpha=float(np.float32(rng.choice([0.1, 0.2])))))
        elif ch == "hswish" and dt == "int8":
            t = unary(net, rng, "HARD_SWISH", t)
        elif ch == "conv":
            t = conv2d(net, rng, t, c, (1, 1), act=rng.choice(["NONE", "RELU"]))
        else:
            t = elementwise(net, rng, "ADD", t, x if x.shape == t.shape else t)
    net.output(t)
    return net


def fam_lut_mixed(rng):
    """8-bit tables in several LUT slots, then a wide (int16, 2048-byte) table, then one of the earlier 8-bit tables
    again with identical values: slot bookkeeping across tables of different sizes (C03, C14)"""
    net = Net("lut_mixed")
    h, w, c = rng.randrange(2, 10), rng.randrange(2, 10), rng.choice([4, 8, 16])
    x = net.input([1, h, w, c], "int8", 1.0 / 64, 0, name="input0")
    Q = {"TANH": (1.0 / 128, 0), "LOGISTIC": (1.0 / 256, -128)}
    t = x
    seen = []            # (kind, input quantisation) of the 8-bit table operators so far
    for _ in range(rng.randrange(3, 6)):
        kind = rng.choice(["TANH", "LOGISTIC", "TANH", "LOGISTIC", "LEAKY_RELU"])
        seen.append((kind, t.scale, t.zp))
        if kind == "LEAKY_RELU":
            t = unary(net, rng, kind, t, dict(Alpha=float(np.float32(0.125))), out_scale=1.0 / 64, out_zp=0)
        else:
            t = unary(net, rng, kind, t)
    for _ in range(rng.randrange(1, 3)):
        t16 = net.tensor(list(t.shape), "int16", 1.0 / 4096, 0)
        net.op("QUANTIZE", [t], [t16], {})
        wide = rng.choice(["EXP", "EXP", "TANH", "LOGISTIC"])
        t16 = unary(net, rng, wide, t16, out_scale=(1.0 / 8192 if wide == "EXP" else None), out_zp=0)
        kind, sc, zp = rng.choice(seen)          # come back with the quantisation an earlier table operator saw
        t = net.tensor(list(t.shape), "int8", sc, zp)
        net.op("QUANTIZE", [t16], [t], {})
        for _ in range(rng.randrange(1, 3)):
            seen.append((kind, t.scale, t.zp))
            if kind == "LEAKY_RELU":
                t = unary(net, rng, kind, t, dict(Alpha=float(np.float32(0.125))), out_scale=1.0 / 64, out_zp=0)
            else:
                t = unary(net, rng, kind, t)
            kind = rng.choice(["TANH", "LOGISTIC"])
    net.output(t)
    return net


def fam_siamese(rng, kind=None):
    """two or three convolutions that share ONE filter and bias constant (siamese branches), the first of them the first
    operator of the network with few input channels and stride 2: identity-keyed caches and in-place weight rewrites"""
    net = Net("siamese")
    dt = rng.choice(["int8", "int8", "uint8"])
    h, w, c = rng.choice([8, 12, 16, 20]), rng.choice([8, 12, 16, 20]), rng.choice([1, 2, 3, 4, 8])
    if kind == "big":       # enough weights for several encoded ranges (two cores, depth slices); filter shared, biases not
        h, w, c = rng.choice([8, 12]), rng.choice([8, 12]), rng.choice([16, 32])
    sc, zp = _rs(rng, 0.005, 0.1), _zp(rng, dt)
    a = net.input([1, h, w, c], dt, sc, zp, name="input0")
    b = net.input([1, h, w, c], dt, sc, zp, name="input1")
    k = rng.choice([(3, 3), (3, 3), (1, 1), (2, 2), (5, 5)])
    st = rng.choice([(2, 2), (2, 2), (1, 2), (1, 1)])
    oc = rng.choice([4, 8, 16])
    if kind == "big":
        oc, k, st = rng.choice([64, 96]), (3, 3), (1, 1)
    pad_ = rng.choice(["SAME", "VALID"])
    ya = conv2d(net, rng, a, oc, k, st, (1, 1), pad_, rng.choice(["NONE", "RELU"]), per_axis=False)
    shared = net.ops[-1]["inputs"][1:]
    if rng.random() < 0.35 or kind == "big":
        # share the filter only: the second user brings its own bias, so the compiler keeps a stand-alone scale tensor
        wt0, b0 = shared
        bd = np.random.RandomState(rng.getrandbits(31)).randint(-2000, 2000, oc)
        shared = [wt0, net.tensor([oc], "int32", b0.scale, 0, bd, qdim=0)]
    yb = conv2d(net, rng, b, oc, k, st, (1, 1), pad_, "NONE", share=shared)
    outs = [ya, yb]
    if rng.random() < 0.4:      # a third user of the same constants behind another operator
        m = pool(net, rng, a, "MAX_POOL_2D", (1, 1), (1, 1), "VALID")
        outs.append(conv2d(net, rng, m, oc, k, rng.choice([st, (1, 1)]), (1, 1), pad_, "NONE", share=shared))
    net.output(*outs)
    return net


def fam_multi_input(rng):
    """several graph inputs of one shape and type consumed pairwise by elementwise operators: tensors whose live ranges
    tie in start, end and size (allocator tie-breaks, C14 / C05 / C12)"""
    net = Net("multi_input")
    dt = rng.choice(["int8", "int8", "uint8"])
    h, w, c = rng.randrange(2, 12), rng.randrange(2, 12), rng.choice([4, 8, 16])
    k = rng.choice([2, 4, 4, 6, 8])
    sc, zp = _rs(rng, 0.01, 0.1), _zp(rng, dt)
    ins = [net.input([1, h, w, c], dt, sc, zp, name="input%d" % i) for i in range(k)]
    level = ins
    if rng.random() < 0.7:
        # both operands of a pair are read by two operators, so neither can be overwritten in place and their live ranges
        # tie exactly (same start, same end, same size)
        level = []
        for i in range(0, k - 1, 2):
            u = elementwise(net, rng, "ADD", ins[i], ins[i + 1])
            v = elementwise(net, rng, rng.choice(["SUB", "MUL"]), ins[i], ins[i + 1])
            level.append(elementwise(net, rng, "ADD", u, v))
    while len(level) > 1:
        nxt = []
        for i in range(0, len(level) - 1, 2):
            nxt.append(elementwise(net, rng, rng.choice(["ADD", "ADD", "SUB", "MUL"]), level[i], level[i + 1]))
        if len(level) % 2:
            nxt.append(level[-1])
        level = nxt
    net.output(level[0])
    return net


def fam_pow2_rescale(rng):
    """global-scale operators whose scales differ by exact powers of two (same multiplier, different shift): requantise
    operators on one input, unpadded average pools with power-of-two windows, elementwise operators in between"""
    net = Net("pow2_rescale")
    dt = rng.choice(["int8", "int8", "uint8"])
    h, w, c = rng.choice([4, 8, 12]), rng.choice([4, 8, 12]), rng.choice([4, 8, 16])
    s0 = float(np.float32(rng.choice([0.5, 0.25, 0.125, 0.0625]) * rng.choice([1.0, 1.0, 0.75])))
    zp0 = 0 if dt == "int8" else 128
    x = net.input([1, h, w, c], dt, s0, zp0, name="input0")
    outs = []
    mode = rng.choice(["quantize_fan", "quantize_chain", "avgpools", "mixed"])
    if mode in ("quantize_fan", "mixed"):
        for k in rng.sample([1, 2, 3, 4], rng.choice([2, 3])):
            y = net.tensor([1, h, w, c], dt, float(np.float32(s0 * 2 ** k)), zp0)
            net.op("QUANTIZE", [x], [y], {})
            outs.append(y)
    if mode in ("quantize_chain", "mixed"):
        t = x
        for k in range(rng.choice([2, 3])):
            y = net.tensor([1, h, w, c], dt, float(np.float32(t.scale * 2 ** rng.choice([1, 2]))), zp0)
            net.op("QUANTIZE", [t], [y], {})
            t = y
        outs.append(t)
    if mode in ("avgpools", "mixed"):
        a = pool(net, rng, x, "AVERAGE_POOL_2D", (2, 2), (2, 2), "VALID")
        b = pool(net, rng, x, "AVERAGE_POOL_2D", (4, 4), (4, 4), "VALID")
        outs += [a, b]
    net.output(*outs)
    return net


def fam_narrowing_chain(rng):
    """16-bit convolutions, a type-narrowing QUANTIZE (int16 -> int8) and 8-bit convolutions in one chain, big enough to be
    cascaded under SRAM pressure: rolling buffers whose consumer changes the element size"""
    net = Net("narrowing_chain")
    h, w = rng.choice([(32, 32), (48, 32), (40, 40), (24, 64)])
    c = rng.choice([8, 16])
    x = _inp(net, rng, [1, h, w, c], "int16")
    x.zp = 0
    t = x
    for _ in range(rng.choice([1, 2])):
        t = conv2d(net, rng, t, rng.choice([16, 32]), (3, 3), (1, 1), (1, 1), "SAME", "NONE", per_axis=False)
        t.zp = 0
    q = net.tensor(list(t.shape), "int8", _rs(rng, 0.01, 0.3), _zp(rng, "int8"))
    net.op("QUANTIZE", [t], [q], {})
    t = q
    for _ in range(rng.choice([1, 2])):
        t = conv2d(net, rng, t, rng.choice([8, 16]), (3, 3), (1, 1), (1, 1), "SAME", "NONE")
    net.output(t)
    return net


def fam_one_channel_tail(rng):
    """a layer with many weights (fully connected or convolution) followed, possibly after other operators, by a layer
    with ONE output channel: on a two-core accelerator the second core has no weight stream for it, and the first layer's
    weights may live in another region than the buffered weights of the second"""
    net = Net("one_channel_tail")
    dt = rng.choice(["int8", "int8", "uint8"])
    if rng.random() < 0.6:
        n_in = rng.choice([64, 128, 256])
        hh, ww, cc = rng.choice([(2, 2, 16), (4, 4, 8), (1, 4, 16), (2, 2, 32), (4, 4, 4)])
        x = _inp(net, rng, [1, n_in], dt)
        t = fully_connected(net, rng, x, hh * ww * cc)
        t = reshape(net, rng, t, [1, hh, ww, cc])
    else:
        x = _inp(net, rng, [1, rng.choice([4, 8]), rng.choice([4, 8]), rng.choice([16, 32])], dt)
        t = conv2d(net, rng, x, rng.choice([32, 64, 96]), (3, 3), (1, 1), (1, 1), "SAME", "NONE")
    if rng.random() < 0.3:
        t = pool(net, rng, t, "MAX_POOL_2D", (1, 1), (1, 1), "VALID")
    k = rng.choice([1, 1, 3])
    t = conv2d(net, rng, t, 1, (k, k), (1, 1), (1, 1), "SAME", rng.choice(["NONE", "RELU"]))
    if rng.random() < 0.3:
        t = conv2d(net, rng, t, rng.choice([1, 8]), (1, 1), (1, 1), (1, 1), "SAME", "NONE")
    net.output(t)
    return net


def fam_memcpy_reshape(rng):
    """a memory-only operator (RESHAPE) that cannot be bypassed because its input has further consumers: it becomes a copy
    (DMA) between two feature maps; channel counts that are not multiples of 16, so the brick format (NHCWB16) of a
    neighbour would change the byte size"""
    net = Net("memcpy_reshape")
    dt = rng.choice(["int8", "int8", "uint8"])
    h, w = rng.choice([(6, 6), (4, 8), (8, 4), (5, 7), (2, 12)])
    c = rng.choice([3, 10, 24, 17, 8, 16, 40])
    x = _inp(net, rng, [1, h, w, rng.choice([4, 8])], dt)
    t = conv2d(net, rng, x, c, (3, 3), (1, 1), (1, 1), "SAME", "NONE") if rng.random() < 0.8 else pool(net, rng, x, "MAX_POOL_2D", (1, 1), (1, 1), "VALID")
    c = t.shape[-1]
    outs = []
    if rng.random() < 0.8:
        outs.append(conv2d(net, rng, t, rng.choice([4, 8]), (rng.choice([1, 3]),) * 2, (1, 1), (1, 1), "SAME", "NONE"))
    else:
        outs.append(pool(net, rng, t, "MAX_POOL_2D", (2, 2), (1, 1), "SAME"))
    shp = rng.choice([[1, w, h, c], [1, h * w, 1, c], [1, 1, h * w, c], [1, h, w * c // (c // 2 if c % 2 == 0 else c), (c // 2 if c % 2 == 0 else c)]])
    t2 = reshape(net, rng, t, shp)
    ch = rng.choice(["conv", "abs", "relu", "pool"])
    if ch == "conv":
        outs.append(conv2d(net, rng, t2, 4, (1, 1), (1, 1), (1, 1), "SAME", "NONE"))
    elif ch == "abs":
        outs.append(unary(net, rng, "ABS", t2, out_scale=t2.scale, out_zp=t2.zp))
    elif ch == "relu":
        outs.append(unary(net, rng, "RELU", t2))
    else:
        outs.append(pool(net, rng, t2, "MAX_POOL_2D", (1, 1), (1, 1), "VALID"))
    if rng.random() < 0.5:
        outs.reverse()
    net.output(*outs)
    return net


def fam_deep_chain(rng, kind=None):
    """a long sequential chain of cheap operators (recursive graph traversals: about 3 Python frames per operator);
    kind = number of operators"""
    net = Net("deep_chain")
    n = int(kind) if kind else rng.choice([250, 350, 600])
    x = net.input([1, 4, 4, 8], "int8", 0.05, 0, name="input0")
    t = x
    for i in range(n):
        t = pool(net, rng, t, "MAX_POOL_2D", (1, 1), (1, 1), "VALID")
    net.output(t)
    net.desc = ["MAX_POOL_2D x %d" % n]
    return net


def fam_weights_heavy(rng):
    """convolutions / fully connected layers with many weights: weight buffering, double buffering, depth slicing,
    two-core weight interleaving"""
    net = Net("weights_heavy")
    dt = rng.choice(["int8", "int8", "uint8", "int16"])
    h, w, c = rng.choice([(32, 32, 64), (16, 16, 128), (24, 24, 32), (8, 8, 256), (40, 20, 48)])
    x = _inp(net, rng, [1, h, w, c], dt)
    t = x
    for _ in range(rng.randrange(1, 4)):
        k = rng.choice([1, 1, 3])
        oc = rng.choice([64, 96, 128, 256, 200])
        if rng.random() < 0.2:
            t = depthwise(net, rng, t, (3, 3))
        t = conv2d(net, rng, t, oc, (k, k), (rng.choice([1, 1, 2]),) * 2, (1, 1), "SAME", rng.choice(["NONE", "RELU"]))
    if rng.random() < 0.4:
        n, hh, ww, cc = t.shape
        t = reshape(net, rng, t, [1, hh * ww * cc])
        t = fully_connected(net, rng, t, rng.choice([10, 64, 128]))
    net.output(t)
    return net


def cpu_join(net, rng, xs):
    """a CPU-only operator reading several tensors (keeps them alive across what lies between)"""
    y = net.tensor(list(xs[0].shape), xs[0].dtype, xs[0].scale, xs[0].zp)
    ins = list(xs)
    if rng.random() < 0.5 and len(xs[0].shape) == 4:
        # a constant operand listed before (some of) the activation operands, as DIV(const, x) or a vendor operator has
        ins.insert(rng.randrange(0, len(ins)), const_like(net, rng, [1, 1, 1, xs[0].shape[-1]], xs[0].dtype))
    net.op("CUSTOM", ins, [y], custom_code=rng.choice(["VerifJoinOp", "VerifThirdPartyOp"]), custom_options=b"join")
    return y


def fam_ew_dag(rng):
    """small DAGs of elementwise / activation operators with constants, broadcasts, both operand orders and
    tensors that stay alive because a later CPU operator reads them: live-range fusing, in-place reuse (C03, C12)"""
    net = Net("ew_dag")
    dt = rng.choice(["int8", "int8", "uint8", "int16"])
    h, w, c = rng.randrange(1, 12), rng.randrange(1, 12), rng.choice([1, 4, 16, 32])
    x = _inp(net, rng, [1, h, w, c], dt)
    pool_t = [x]
    if rng.random() < 0.7:
        pool_t.append(unary(net, rng, rng.choice(["RELU", "RELU6"]) if dt != "int16" else "RELU", x))
    for _ in range(rng.randrange(1, 5)):
        a = rng.choice(pool_t)
        kindb = rng.choice(["const_bcast", "const_full", "tensor", "tensor", "scalar"])
        if kindb == "const_bcast":
            b = const_like(net, rng, [1, 1, 1, c], dt)
        elif kindb == "const_full":
            b = const_like(net, rng, [1, h, w, c], dt)
        elif kindb == "scalar":
            b = const_like(net, rng, [1, 1, 1, 1], dt)
        else:
            b = rng.choice(pool_t)
        opk = rng.choice(["ADD", "ADD", "SUB", "MUL", "MINIMUM", "MAXIMUM"])
        ops = [a, b] if rng.random() < 0.5 else [b, a]
        y = elementwise(net, rng, opk, ops[0], ops[1], out_shape=[1, h, w, c])
        pool_t.append(y)
        if rng.random() < 0.25 and dt != "int16":
            pool_t.append(unary(net, rng, rng.choice(["LOGISTIC", "TANH"]), y))
    # a CPU operator that reads two or three of the tensors produced so far, then maybe more NPU work
    k = min(len(pool_t), rng.choice([2, 2, 3]))
    picks = rng.sample(pool_t, k)
    j = cpu_join(net, rng, picks)
    outs = [j]
    if rng.random() < 0.5:
        outs = [elementwise(net, rng, "ADD", j, rng.choice(pool_t), out_shape=[1, h, w, c])]
    if rng.random() < 0.3:
        outs.append(rng.choice(pool_t[1:]) if len(pool_t) > 1 else j)
    seen = []
    for o in outs:
        if o not in seen:
            seen.append(o)
    net.output(*seen)
    return net


def fam_multi_custom(rng):
    """several different third-party custom operators and operator versions in one model (writer tables, C11, C14)"""
    net = Net("multi_custom")
    dt = rng.choice(["int8", "uint8"])
    h, w, c = rng.randrange(2, 10), rng.randrange(2, 10), rng.choice([4, 8, 16])
    x = _inp(net, rng, [1, h, w, c], dt)
    codes = ["SeedOpB", "SeedOpA", "ZVendorOp", "AVendorOp"]
    rng.shuffle(codes)
    t = x
    branches = []
    for code in codes[:rng.randrange(2, 5)]:
        y = net.tensor(list(t.shape), t.dtype, t.scale, t.zp)
        net.op("CUSTOM", [t], [y], custom_code=code, custom_options=code.encode())
        branches.append(y)
        if rng.random() < 0.5:
            t = conv2d(net, rng, y, c, (1, 1))
    s = branches[0]
    for b in branches[1:]:
        s = elementwise(net, rng, "ADD", s, b)
    net.output(s)
    return net


# kinds drawn at random; "if_npu" (NPU-supported operators inside the IF branches) killed the compiler before 37530b3
MULTI_KINDS = ["while", "while", "while_fm", "if", "call_once", "while_call_once", "if_call_once", "while2", "if_same", "if_npu",
               "while_unnamed", "if_npu_unnamed", "orphan", "call"]


def _ms_custom(net, rng, x, code):
    """third-party custom operator with one or two constant table operands; keeps shape / type / quantisation"""
    y = net.tensor(list(x.shape), x.dtype, x.scale, x.zp)
    ins = [x]
    for _ in range(rng.choice([1, 1, 2])):
        n = rng.choice([1, 3, 6, 16, 33])
        cdt = rng.choice(["int32", "int8", "int16"])
        data = np.random.RandomState(rng.getrandbits(31)).randint(-100, 100, n) | 1       # never all zero
        ins.append(net.tensor([n], cdt, None, None, data, name="%s_table%d" % (code, len(net.tensors))))
    net.op("CUSTOM", ins, [y], custom_code=code, custom_options=code.encode()[:5])
    return y


def _ms_segment(net, rng, t, tag, cpu, sc, zp, npu=True):
    """1..2 NPU-supported operators (none when npu is false), optionally followed by a CPU custom operator with
    constants; the result has the shape of `t` and the quantisation (sc, zp) of the loop-carried / branch-result tensor"""
    c = t.shape[-1]
    if not npu:
        for k in range(rng.randrange(1, 3)):
            t = _ms_custom(net, rng, t, "Vendor%s%s" % (tag, "" if k == 0 else "B"))
        return t
    for _ in range(rng.randrange(1, 3)):
        ch = rng.choice(["conv", "conv", "dw", "add_const", "act"])
        if ch == "conv":
            t = conv2d(net, rng, t, c, (rng.choice([1, 3]),) * 2, act=rng.choice(["NONE", "RELU"]))
        elif ch == "dw":
            t = depthwise(net, rng, t, (3, 3))
        elif ch == "add_const":
            t = elementwise(net, rng, "ADD", t, const_like(net, rng, [1, 1, 1, c], t.dtype), out_shape=list(t.shape))
        else:
            t = unary(net, rng, "LEAKY_RELU", t, dict(Alpha=float(np.float32(0.1))))
        t.scale, t.zp = sc, zp
    if cpu:
        t = _ms_custom(net, rng, t, "Vendor" + tag)
    return t


def fam_multi_subgraph(rng, kind=None):
    """models with 2..4 subgraphs (WHILE cond/body, IF then/else, CALL_ONCE init): NPU and CPU operators with constant
    operands in every subgraph; subgraph indices inside the control-flow options; model-wide buffer table (C11)"""
    kind = kind or rng.choice(MULTI_KINDS)
    net = Net("multi_subgraph_" + kind)
    unnamed = kind.endswith("_unnamed")             # the further subgraphs carry no name (all the same, absent, name)
    if unnamed:
        kind = kind[:-len("_unnamed")]
    dt = rng.choice(["int8", "int8", "uint8"])
    h, w, c = rng.randrange(2, 12), rng.randrange(2, 12), rng.choice([4, 8, 16])
    shape = [1, h, w, c]
    x = _inp(net, rng, shape, dt)
    sc, zp = _rs(rng, 0.01, 0.2), _zp(rng, dt)     # quantisation of the loop-carried / branch-result feature map
    subs = []                                       # (Net, [(operator dict, option field)]) ; indices fixed at the end

    def sub(name):
        s = Net(name)
        s.sgname = name
        s.anon = unnamed
        subs.append(s)
        return s

    refs = []                                       # (operator dict, option key, Net referred to)

    def ctl(n, kindop, ins, outs, **targets):
        n.op(kindop, ins, outs, {})
        for k, s in targets.items():
            refs.append((n.ops[-1], k, s))

    def fm(n, name, inp=False):
        return (n.input if inp else n.tensor)(shape, dt, sc, zp, name=name)

    def cond_sg(name, counter):
        s = sub(name)
        if counter:
            i = s.input([1], "int32", None, None, name=name + "_i")
            fm(s, name + "_v", inp=True)              # carried feature map: not read by the condition
            lim = s.tensor([1], "int32", None, None, [rng.randrange(1, 50)], name=name + "_limit")
            r = s.tensor([1], "bool", name=name + "_res")
            s.op("LESS", [i, lim], [r], {})
        else:
            v = fm(s, name + "_v", inp=True)
            lim = s.tensor([1], dt, sc, zp, [rng.randrange(1, 100)], name=name + "_limit")
            r = s.tensor(shape, "bool", name=name + "_res")
            s.op(rng.choice(["LESS", "GREATER"]), [v, lim], [r], {})
        s.output(r)
        return s

    def body_sg(name, counter, cpu):
        s = sub(name)
        outs = []
        if counter:
            i = s.input([1], "int32", None, None, name=name + "_i")
            one = s.tensor([1], "int32", None, None, [rng.randrange(1, 4)], name=name + "_step")
            i2 = s.tensor([1], "int32", name=name + "_inext")
            s.op("ADD", [i, one], [i2], dict(FusedActivationFunction=0))
            outs.append(i2)
        v = fm(s, name + "_v", inp=True)
        outs.append(_ms_segment(s, rng, v, name.title().replace("_", ""), cpu, sc, zp))
        s.output(*outs)
        return s

    def branch_sg(name, cpu, trivial=False):
        s = sub(name)
        v = fm(s, name + "_v", inp=True)
        if trivial:
            y = _ms_custom(s, rng, v, "VendorElse")
        else:
            y = _ms_segment(s, rng, v, name.title().replace("_", ""), cpu, sc, zp, npu=(kind in ("if_npu", "orphan", "call")))
        s.output(y)
        return s

    def init_sg(name, shared):
        s = sub(name)
        r = s.tensor([], "resource", name=name + "_handle")
        s.op("VAR_HANDLE", [], [r], dict(Container="", SharedName=shared))
        val = const_like(s, rng, [1, 1, 1, c], dt, sc, zp)
        val.name = name + "_value"
        s.op("ASSIGN_VARIABLE", [r, val], [], {})
        return s

    cpu_main = rng.random() < 0.7
    t = x
    if rng.random() < 0.8:
        t = _ms_segment(net, rng, t, "Pre", False, sc, zp)
    else:
        t.scale, t.zp = sc, zp
    if "call_once" in kind:
        shared = "verif_var%d" % rng.randrange(100)
        ini = init_sg("init", shared)
        ctl(net, "CALL_ONCE", [], [], InitSubgraphIndex=ini)
        r = net.tensor([], "resource", name="handle")
        net.op("VAR_HANDLE", [], [r], dict(Container="", SharedName=shared))
        v = net.tensor([1, 1, 1, c], dt, sc, zp, name="var_value")
        net.op("READ_VARIABLE", [r], [v], {})
        t = elementwise(net, rng, "ADD", t, v, out_shape=shape)
        t.scale, t.zp = sc, zp
    before = t
    if kind.startswith("while"):
        counter = kind != "while_fm"
        nloops = 2 if kind == "while2" else 1
        cnd = cond_sg("while_cond", counter)
        for k in range(nloops):
            bdy = body_sg("while_body%s" % ("" if k == 0 else str(k + 1)), counter, rng.random() < 0.7)
            y = fm(net, "loop%d_out" % k)
            ins, outs = [t], [y]
            if counter:
                i0 = net.tensor([1], "int32", None, None, [0], name="loop%d_i0" % k)
                ie = net.tensor([1], "int32", name="loop%d_iend" % k)
                ins, outs = [i0, t], [ie, y]
            ctl(net, "WHILE", ins, outs, CondSubgraphIndex=cnd, BodySubgraphIndex=bdy)
            t = y
            if k + 1 < nloops and rng.random() < 0.5:
                t = _ms_segment(net, rng, t, "Mid", False, sc, zp)
    elif kind.startswith("if"):
        p = net.input([1], "bool", name="pred")
        th = branch_sg("if_then", rng.random() < 0.7)
        el = th if kind == "if_same" else branch_sg("if_else", rng.random() < 0.5, trivial=rng.random() < 0.3)
        y = fm(net, "if_out")
        ctl(net, "IF", [p, t], [y], ThenSubgraphIndex=th, ElseSubgraphIndex=el)
        t = y
    elif kind == "orphan":
        branch_sg("orphan", False)                  # a subgraph that no operator refers to
        t = _ms_segment(net, rng, t, "Main", False, sc, zp)
    elif kind == "call":
        cs = branch_sg("callee", rng.random() < 0.5)
        y = fm(net, "call_out")
        ctl(net, "CALL", [t], [y], Subgraph=cs)
        t = y
    if t is not before and kind != "orphan" and rng.random() < 0.5:
        # a tensor of main that is produced before and read after the control-flow operator (alive across the callees)
        t = elementwise(net, rng, rng.choice(["ADD", "MUL"]), t, before, out_shape=shape)
        t.scale, t.zp = sc, zp
    if cpu_main:
        t = _ms_custom(net, rng, t, "VendorPost")
    if rng.random() < 0.5:
        t = _ms_segment(net, rng, t, "Post", False, sc, zp)
    net.output(t)
    # the further subgraphs in random order; fix the indices in the options
    rng.shuffle(subs)
    net.subnets = subs
    for o, k, s in refs:
        o["opts"][k] = 1 + subs.index(s)
    for s in subs:
        net.desc.append("|%s:" % s.sgname)
        net.desc += s.desc
    return net


FAMILIES = {
    "conv_chain": fam_conv_chain, "conv_chain_big": lambda rng: fam_conv_chain(rng, big=True), "single": fam_single_op,
    "diamond": fam_diamond, "mixed_cpu": fam_mixed_cpu, "unsupported": fam_unsupported, "lut_heavy": fam_lut_heavy, "lut_mixed": fam_lut_mixed, "siamese": fam_siamese, "multi_input": fam_multi_input, "deep_chain": fam_deep_chain, "pow2_rescale": fam_pow2_rescale, "narrowing_chain": fam_narrowing_chain, "one_channel_tail": fam_one_channel_tail, "memcpy_reshape": fam_memcpy_reshape, "branchy": fam_branchy, "ew_chain": fam_ew_chain, "concat_split": fam_concat_split, "mixed_exact": fam_mixed_exact, "weights_heavy": fam_weights_heavy, "ew_dag": fam_ew_dag, "multi_custom": fam_multi_custom,
}
FAMILIES["multi_subgraph"] = fam_multi_subgraph


def fam_upscale_chain(rng, kind=None):
    """C10: a x2 upscaling operator (RESIZE_NEAREST_NEIGHBOR / RESIZE_BILINEAR) BETWEEN convolutions, so that the
    NEAREST-upscaling NPU operator can sit inside a cascade and inherit its stripe height from its consumer.
    kind: "nearest" | "bilinear" | None (drawn)"""
    net = Net("upscale_chain")
    dt = "int8"
    h = rng.choice([8, 12, 16, 24, 24, 32, 40])
    w = rng.choice([8, 16, 24, 24, 32])
    c = rng.choice([8, 8, 16])
    x = _inp(net, rng, [1, h, w, c], dt)
    for _ in range(rng.choice([1, 1, 2])):
        x = conv2d(net, rng, x, rng.choice([16, 32, 32, 48]), (3, 3), (1, 1), (1, 1), "SAME", rng.choice(["NONE", "RELU"]))
    kind = kind or rng.choice(["nearest", "nearest", "bilinear"])
    if kind == "nearest":
        x = resize(net, rng, x, "RESIZE_NEAREST_NEIGHBOR", 2, False, rng.random() < 0.3)
    else:
        x = resize(net, rng, x, "RESIZE_BILINEAR", 2, False, rng.random() < 0.3)
    for i in range(rng.choice([1, 1, 2])):
        k = rng.choice([1, 3, 3, 3, 5])
        s = rng.choice([1, 1, 1, 1, 2, 3]) if i else 1
        x = conv2d(net, rng, x, rng.choice([8, 8, 16, 32]), (k, k), (s, s), (1, 1), rng.choice(["SAME", "SAME", "VALID"]), "NONE")
    net.output(x)
    return net


FAMILIES["upscale_chain"] = fam_upscale_chain


def fam_split_conv(rng, kind=None):
    """C10: input -> SPLIT in two (along depth or along width) -> one 3x3 SAME CONV_2D with 32 (or 48) output channels per
    part.  Vela folds the split into the consumers (read offset / read shape) and, with weights that need DMA (default
    Ethos-U55 configuration), runs each convolution as several OFM depth slices.  kind: "depth" | "width" | None (drawn)"""
    net = Net("split_conv")
    kind = kind or rng.choice(["depth", "width"])
    h = rng.choice([4, 8, 8, 12])
    if kind == "depth":
        w, c, axis = rng.choice([8, 8, 16]), rng.choice([32, 64, 64]), 3
    else:
        w, c, axis = rng.choice([16, 16, 32]), rng.choice([16, 32, 32]), 2
    x = _inp(net, rng, [1, h, w, c], "int8")
    shp = [1, h, w, c]
    shp[axis] //= 2
    parts = [net.tensor(shp, "int8", x.scale, x.zp) for _ in range(2)]
    ax = net.tensor([], "int32", None, None, axis)
    net.op("SPLIT", [ax, x], parts, dict(NumSplits=2))
    for p in parts:
        y = conv2d(net, rng, p, rng.choice([32, 32, 48]), (3, 3), (1, 1), (1, 1), "SAME", rng.choice(["NONE", "RELU"]))
        net.output(y)
    return net


FAMILIES["split_conv"] = fam_split_conv


def lstm_layer(net, rng, x, n_cell, time_major, variant="plain", tag="l0"):
    """one fully integer UNIDIRECTIONAL_SEQUENCE_LSTM on x ([batch, time, feature], or [time, batch, feature] when
    time_major): 24 inputs (absent ones None), two variable state tensors, five intermediates (the converter's layout).
    variant: plain | cifg | peephole | projection | lnorm (all but plain are outside Vela's LSTM constraints)"""
    nb, nt = (x.shape[1], x.shape[0]) if time_major else (x.shape[0], x.shape[1])
    nf = x.shape[2]
    n_out = n_cell

    def wts(shape, nm):
        sc = _rs(rng, 0.002, 0.02)
        return net.tensor(shape, "int8", sc, 0, _wdata(rng, shape, "int8"), name="%s_%s" % (tag, nm))

    def bias(w, in_scale, nm):
        return net.tensor([n_cell], "int32", float(np.float32(in_scale * w.scale)), 0,
                          [rng.randint(-2000, 2000) for _ in range(n_cell)], name="%s_%s" % (tag, nm))
    h_scale, h_zp = _rs(rng, 0.004, 0.01), rng.choice([0, 0, -5, 11])
    iw = [wts([n_cell, nf], "w_i%d" % k) for k in range(4)]
    rw = [wts([n_cell, n_out], "w_r%d" % k) for k in range(4)]
    bs = [bias(iw[k], x.scale, "b%d" % k) for k in range(4)]
    out_state = net.tensor([nb, n_out], "int8", h_scale, h_zp, name="%s_output_state" % tag)
    cell_state = net.tensor([nb, n_cell], "int16", float(2.0 ** rng.choice([-11, -11, -12, -10])), 0, name="%s_cell_state" % tag)
    out_state.is_variable = cell_state.is_variable = True
    inputs = [x] + iw + rw + [None] * 3 + bs + [None] * 2 + [out_state, cell_state] + [None] * 4
    if variant == "cifg":
        inputs[1] = inputs[5] = inputs[12] = None
    elif variant == "peephole":
        for k in (9, 10, 11):
            inputs[k] = net.tensor([n_cell], "int16", _rs(rng, 0.0001, 0.001), 0,
                                   [rng.randint(-3000, 3000) for _ in range(n_cell)], name="%s_peep%d" % (tag, k))
    elif variant == "projection":
        inputs[16] = wts([n_out, n_cell], "w_proj")
    elif variant == "lnorm":
        for k in (20, 21, 22, 23):
            inputs[k] = net.tensor([n_cell], "int16", _rs(rng, 0.00003, 0.0003), 0,
                                   [rng.randint(1000, 30000) for _ in range(n_cell)], name="%s_ln%d" % (tag, k))
    inter = [net.tensor([], "int16", _rs(rng, 0.0001, 0.001), 0, name="%s_intermediate_%d" % (tag, k)) for k in range(4)]
    inter.append(net.tensor([], "int8", _rs(rng, 0.004, 0.01), rng.choice([0, 0, -3, 7]), name="%s_intermediate_4" % tag))
    y = net.tensor(list(x.shape[:2]) + [n_out], "int8", h_scale, h_zp, name="%s_out" % tag)
    net.op("UNIDIRECTIONAL_SEQUENCE_LSTM", inputs, [y],
           dict(FusedActivationFunction=4, CellClip=float(rng.choice([0.0, 0.0, 10.0])), ProjClip=0.0, TimeMajor=bool(time_major)),
           intermediates=inter)
    return y


def fam_lstm(rng, kind=None):
    """UNIDIRECTIONAL_SEQUENCE_LSTM, fully integer (int8 activations, int16 cell state), as the converter writes it.
    kind: seq (batch major) | tm (time major) | stack (two layers) | tail (LSTM, then a reshape and a classifier) |
    cifg | peephole | projection | lnorm (outside Vela's constraints: must stay on the CPU, verbatim)"""
    kind = kind or rng.choice(["seq", "seq", "tm", "stack", "tail", "cifg", "peephole", "projection", "lnorm"])
    net = Net("lstm_" + kind)
    tm = kind == "tm" or (kind in ("stack", "cifg", "peephole") and rng.random() < 0.3)
    nb, nt, nf = rng.choice([1, 1, 2, 3]), rng.choice([1, 2, 3, 5]), rng.choice([4, 8, 10, 16, 24])
    n_cell = rng.choice([4, 8, 12, 16, 32])
    x = _inp(net, rng, [nt, nb, nf] if tm else [nb, nt, nf], "int8")
    variant = kind if kind in ("cifg", "peephole", "projection", "lnorm") else "plain"
    y = lstm_layer(net, rng, x, n_cell, tm, variant)
    if kind == "stack":
        y = lstm_layer(net, rng, y, rng.choice([4, 8, 16]), tm, "plain", tag="l1")
    elif kind == "tail":
        flat = net.tensor([y.shape[0], y.shape[1] * y.shape[2]], "int8", y.scale, y.zp)
        shp = net.tensor([2], "int32", None, None, list(flat.shape), name="tail_shape")
        net.op("RESHAPE", [y, shp], [flat], dict(NewShape=list(flat.shape)))
        y = fully_connected(net, rng, flat, rng.choice([4, 10]))
    net.output(y)
    return net


FAMILIES["lstm"] = fam_lstm


def fam_rewrite_patterns(rng, kind=None):
    """operator groups that Vela's graph optimiser recognises across operators the NPU does not run:
    float island  DEQUANTIZE -> EXP | LOG (float32) -> QUANTIZE              (kinds deq_exp_q, deq_log_q, deq_exp_fan)
    dilation      SPACE_TO_BATCH_ND -> CONV_2D | DEPTHWISE (VALID) -> BATCH_TO_SPACE_ND, the way the converter writes a
                  dilated convolution it could not fold: with the paddings / crops of SAME (s2b_same), of VALID
                  (s2b_valid) and with a second reader of the rearranged tensor (s2b_fan)"""
    kind = kind or rng.choice(["deq_exp_q", "deq_log_q", "deq_exp_fan", "s2b_same", "s2b_valid", "s2b_same", "s2b_fan"])
    net = Net("rewrite_" + kind)
    if kind.startswith("deq"):
        dt = "int8"
        shp = rng.choice([[1, 4, 4, 8], [1, 16], [1, 3, 5, 7], [2, 8]])
        x = _inp(net, rng, shp, dt)
        if kind == "deq_log_q":
            x.scale, x.zp = _rs(rng, 0.01, 0.05), -128           # positive reals only
        else:
            x.scale, x.zp = _rs(rng, 0.01, 0.04), rng.choice([0, 60, 100, 127])
        if rng.random() < 0.5:                                     # something on the NPU in front
            x = unary(net, rng, "RELU", x)
        f = net.tensor(list(shp), "float32")
        net.op("DEQUANTIZE", [x], [f], {}, version=2)
        g = net.tensor(list(shp), "float32")
        net.op("EXP" if kind != "deq_log_q" else "LOG", [f], [g], {})
        if kind == "deq_log_q":
            osc, ozp = float(np.float32(8.0 / 250)), 64
        else:
            osc, ozp = float(np.float32(math.exp(x.scale * (127 - x.zp)) / 250.0)), -128
        y = net.tensor(list(shp), dt, osc, ozp)
        net.op("QUANTIZE", [g], [y], {}, version=1)
        outs = [y]
        if kind == "deq_exp_fan":                                  # the float result has a second reader
            y2 = net.tensor(list(shp), dt, float(np.float32(osc * 2)), ozp)
            net.op("QUANTIZE", [g], [y2], {}, version=1)
            outs.append(y2)
        net.output(*outs)
        return net
    dt = rng.choice(["int8", "int8", "uint8"])
    d = rng.choice([2, 2, 3, 4])
    k = rng.choice([3, 3, 2])
    c = rng.choice([4, 8, 16])
    span = d * (k - 1)
    if kind == "s2b_valid":
        h, w = span + rng.choice([1, 2, 4, 6]), span + rng.choice([1, 3, 4, 8])
        oh, ow = h - span, w - span
        pt, pl = 0, 0
    else:
        h, w = rng.choice([5, 6, 8, 9, 12]), rng.choice([4, 6, 8, 11])
        oh, ow = h, w
        pt, pl = span // 2, span // 2
    # rows after padding: a multiple of d that holds pad_top + h + (span - pad_top)
    ph = -(-(h + (span if kind != "s2b_valid" else 0)) // d) * d
    pw = -(-(w + (span if kind != "s2b_valid" else 0)) // d) * d
    pb, pr = ph - h - pt, pw - w - pl
    x = _inp(net, rng, [1, h, w, c], dt)
    blk = net.tensor([2], "int32", None, None, [d, d], name="block_shape")
    pads = net.tensor([2, 2], "int32", None, None, [[pt, pb], [pl, pr]], name="s2b_paddings")
    sb = net.tensor([d * d, ph // d, pw // d, c], dt, x.scale, x.zp)
    net.op("SPACE_TO_BATCH_ND", [x, blk, pads], [sb], {})
    if rng.random() < 0.7:
        cv = conv2d(net, rng, sb, rng.choice([4, 8, 16]), (k, k), (1, 1), (1, 1), "VALID")
    else:
        cv = depthwise(net, rng, sb, (k, k), (1, 1), (1, 1), "VALID")
    # (the helpers compute the VALID output shape from the 4-D input shape: [d*d, ph/d - k + 1, pw/d - k + 1, oc])
    full_h, full_w = cv.shape[1] * d, cv.shape[2] * d
    crops = net.tensor([2, 2], "int32", None, None, [[0, full_h - oh], [0, full_w - ow]], name="b2s_crops")
    y = net.tensor([1, oh, ow, cv.shape[3]], dt, cv.scale, cv.zp)
    net.op("BATCH_TO_SPACE_ND", [cv, blk, crops], [y], {})
    outs = [y]
    if kind == "s2b_fan":
        outs.append(pool(net, rng, sb, "MAX_POOL_2D", (1, 1), (1, 1), "VALID"))
    net.output(*outs)
    return net


FAMILIES["rewrite_patterns"] = fam_rewrite_patterns


def fam_cpu_fan(rng):
    """C01 / C03 / C12: a tensor produced by a CPU operator is read by one elementwise NPU operator that could work in place
    (same shape, type and quantisation) and by CPU operators that run after it; outputs are the NPU result and the CPU
    readers' results - the NPU operator must not overwrite what the CPU still reads"""
    net = Net("cpu_fan")
    dt = rng.choice(["int8", "int8", "uint8"])
    shp = [1, rng.randrange(2, 10), rng.randrange(2, 10), rng.choice([4, 8, 16])]
    x = _inp(net, rng, shp, dt)
    t = x
    if rng.random() < 0.5:
        t = unary(net, rng, "RELU", t)
    xc = cpu_only(net, rng, t, rng.choice(["CUSTOM", "FLOAT_ROUNDTRIP", "L2_NORMALIZATION"]))
    ek = rng.choice(["MAXIMUM", "MINIMUM", "RELU", "ADD", "MUL"])
    if ek == "RELU":
        y = unary(net, rng, rng.choice(["RELU", "RELU6"]), xc)
    else:
        y = elementwise(net, rng, ek, xc, const_like(net, rng, rng.choice([shp, [1, 1, 1, shp[3]]]), dt, xc.scale, xc.zp))
        if rng.random() < 0.6:
            y.scale, y.zp = xc.scale, xc.zp
    outs = [y]
    for _ in range(rng.choice([1, 1, 1, 2])):
        outs.append(cpu_only(net, rng, xc, rng.choice(["CUSTOM", "FLOAT_ROUNDTRIP", "L2_NORMALIZATION"])))
    if rng.random() < 0.2:
        outs.append(xc)
    if rng.random() < 0.4:
        outs[0] = unary(net, rng, "RELU", y)
    net.output(*outs)
    return net


FAMILIES["cpu_fan"] = fam_cpu_fan


def generate(family, seed):
    """family may be "single:<kind>" / "unsupported:<kind>" to fix the operator kind"""
    rng = random.Random("%s/%s" % (family, seed))
    with_meta = family.endswith("!meta")          # "<family>!meta": the model carries five metadata entries
    if with_meta:
        family = family[:-len("!meta")]
    main_anon = family.endswith("!anon")          # "<family>!anon": the main subgraph carries no name (optional in the schema)
    if main_anon:
        family = family[:-len("!anon")]
    fam, _, kind = family.partition(":")
    for _ in range(20):
        net = FAMILIES[fam](rng, kind) if kind else FAMILIES[fam](rng)
        if net is not None:
            # one model in four carries the legacy min / max fields on its activation tensors (own generator, so that the
            # other draws of a (family, seed) do not move)
            net.legacy_minmax = random.Random("minmax/%s/%s" % (family, seed)).random() < 0.25
            net.main_anon = main_anon
            if with_meta:
                net.metadata = [("min_runtime_version", b"1.14.0" + bytes(10)), ("TFLITE_METADATA", bytes(range(48))),
                                ("verif.note", b"left alone by the compiler"), ("a", b"\x01"), ("zz_last", bytes(7))]
            return net
    raise RuntimeError("generator %s produced nothing" % family)


if __name__ == "__main__":
    fam, sd, out = sys.argv[1], sys.argv[2], sys.argv[3]
    n = generate(fam, sd)
    open(out, "wb").write(n.build())
    print(n.name, n.desc)
