#!/usr/bin/env python3
"""Runs registered checks against a seeded change: apply /verif/seeded/<name>/patch.diff to /repo, run
./check <property> <tier> (all properties in meta.json, or those given), undo with git checkout, and record
the outcome in /verif/seeded/<name>/result.json.   usage: seedtest.py <name> [tier] [Cxx ...]"""
import json
import os
import subprocess
import sys
import time

ROOT = os.path.dirname(os.path.dirname(os.path.abspath(__file__)))


def main():
    name = sys.argv[1]
    tier = sys.argv[2] if len(sys.argv) > 2 else "quick"
    d = os.path.join(ROOT, "seeded", name)
    meta = json.load(open(os.path.join(d, "meta.json")))
    props = sys.argv[3:] or meta.get("checks", [meta["property"]])
    st = subprocess.run(["git", "-C", "/repo", "status", "--porcelain", "--untracked-files=no"], capture_output=True, text=True).stdout.strip()
    if st:
        print("refusing: /repo has uncommitted changes:\n" + st)
        return 2
    p = subprocess.run(["git", "-C", "/repo", "apply", os.path.join(d, "patch.diff")], capture_output=True, text=True)
    if p.returncode != 0:
        print("patch does not apply:", p.stderr)
        return 2
    out = {}
    try:
        for pid in props:
            t0 = time.time()
            r = subprocess.run([os.path.join(ROOT, "check"), pid, tier], capture_output=True, text=True, timeout=7200, cwd=ROOT)
            lines = [l for l in r.stdout.split("\n") if l.startswith("VIOLATION") or l.startswith("KNOWN-FINDING")]
            out[pid] = {"exit": r.returncode, "violations": [l for l in lines if l.startswith("VIOLATION")],
                        "detail": [l for l in r.stdout.split("\n") if l.startswith("  ")][:6], "wall_s": round(time.time() - t0, 1)}
            print(pid, "exit", r.returncode, "|", (out[pid]["violations"] or ["no violation"])[0][:160])
    finally:
        subprocess.run(["git", "-C", "/repo", "checkout", "--", "."], capture_output=True)
    json.dump({"tier": tier, "results": out, "detected": any(v["exit"] == 1 and v["violations"] for v in out.values())},
              open(os.path.join(d, "result.json"), "w"), indent=1)
    return 0


if __name__ == "__main__":
    sys.exit(main())
