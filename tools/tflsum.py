"""Plain flatbuffer walk of a .tflite file (independent of Vela's reader): a summary dict.

summary = {version, description, subgraphs: [{name, inputs, outputs, tensors: [{idx, name, shape, type, buffer,
           quant: {scale, zero_point, qdim}, data_sha, data_len}], operators: [{idx, opcode, custom_code, version,
           inputs, outputs, options_type, options: {...}, custom_options}]}], metadata: {name: bytes},
           buffers: [len]}"""
import hashlib
import importlib
import os
import struct
import sys

import numpy as np

HERE = os.path.dirname(os.path.abspath(__file__))
if HERE not in sys.path:
    sys.path.insert(0, HERE)
from tfl import BuiltinOperator, BuiltinOptions, Model, TensorType  # noqa: E402

BO_NAME = {v: k for k, v in vars(BuiltinOperator.BuiltinOperator).items() if not k.startswith("_")}
BOPT_NAME = {v: k for k, v in vars(BuiltinOptions.BuiltinOptions).items() if not k.startswith("_")}
TT_NAME = {v: k.lower() for k, v in vars(TensorType.TensorType).items() if not k.startswith("_")}


def _options(op):
    t = op.BuiltinOptionsType()
    name = BOPT_NAME.get(t, str(t))
    tab = op.BuiltinOptions()
    if tab is None or name == "NONE":
        return name, None
    try:
        mod = importlib.import_module("tfl." + name)
        cls = getattr(mod, name)
        o = cls()
        o.Init(tab.Bytes, tab.Pos)
        d = {}
        for m in dir(cls):
            # field accessors of the generated class: everything but Init / GetRootAs* / the vector helpers (a prefix
            # test on "Init", "End", ... would drop CallOnceOptions.InitSubgraphIndex and StridedSliceOptions.EndMask)
            if m[0].isupper() and m != "Init" and not m.startswith("GetRootAs") and not m.endswith(
                    ("Length", "IsNone", "AsNumpy", "BufferHasIdentifier")) and m != name:
                try:
                    if hasattr(cls, m + "Length"):
                        v = [getattr(o, m)(i) for i in range(getattr(o, m + "Length")())]
                    else:
                        v = getattr(o, m)()
                    if isinstance(v, bytes):
                        v = v.decode("latin1")
                    if isinstance(v, (np.integer,)):
                        v = int(v)
                    if isinstance(v, (np.floating, float)):
                        v = float(v).hex()
                    if isinstance(v, list):
                        v = [int(x) if isinstance(x, (np.integer, int)) else x for x in v]
                    if isinstance(v, (int, bool, str, list)) or v is None:
                        d[m] = v
                except Exception:
                    pass
        return name, d
    except Exception as ex:
        return name, {"_error": repr(ex)}


def summarise(data):
    if isinstance(data, str):
        data = open(data, "rb").read()
    buf = bytearray(data)
    if len(buf) < 8 or bytes(buf[4:8]) != b"TFL3":
        raise ValueError("not a TFL3 flatbuffer")
    m = Model.Model.GetRootAsModel(buf, 0)
    out = {"version": m.Version(), "description": (m.Description() or b"").decode("latin1"), "subgraphs": [],
           "metadata": {}, "buffers": []}
    bufs = []
    for i in range(m.BuffersLength()):
        b = m.Buffers(i)
        n = b.DataLength()
        d = b.DataAsNumpy().tobytes() if n else b""
        bufs.append(d)
        out["buffers"].append(n)
    codes = []
    for i in range(m.OperatorCodesLength()):
        oc = m.OperatorCodes(i)
        bc = max(oc.BuiltinCode(), oc.DeprecatedBuiltinCode())
        codes.append((BO_NAME.get(bc, str(bc)), (oc.CustomCode() or b"").decode("latin1") or None, oc.Version()))
    for si in range(m.SubgraphsLength()):
        sg = m.Subgraphs(si)
        tensors = []
        for ti in range(sg.TensorsLength()):
            t = sg.Tensors(ti)
            q = t.Quantization()
            quant = None
            if q is not None:
                quant = {"scale": [float(np.float32(q.Scale(k))).hex() for k in range(q.ScaleLength())],
                         "zero_point": [int(q.ZeroPoint(k)) for k in range(q.ZeroPointLength())],
                         "qdim": int(q.QuantizedDimension()),
                         "min": [float(np.float32(q.Min(k))).hex() for k in range(q.MinLength())],
                         "max": [float(np.float32(q.Max(k))).hex() for k in range(q.MaxLength())]}
            d = bufs[t.Buffer()] if t.Buffer() < len(bufs) else b""
            tensors.append({"idx": ti, "name": (t.Name() or b"").decode("latin1"),
                            "shape": [int(t.Shape(k)) for k in range(t.ShapeLength())], "type": TT_NAME.get(t.Type(), str(t.Type())),
                            "buffer": int(t.Buffer()), "quant": quant, "data_len": len(d), "variable": bool(t.IsVariable()),
                            "data_sha": hashlib.sha256(d).hexdigest()[:16] if d else None})
        ops = []
        for oi in range(sg.OperatorsLength()):
            op = sg.Operators(oi)
            code = codes[op.OpcodeIndex()]
            on, od = _options(op)
            co = op.CustomOptionsAsNumpy().tobytes() if op.CustomOptionsLength() else b""
            ops.append({"idx": oi, "opcode": code[0], "custom_code": code[1], "version": code[2],
                        "inputs": [int(op.Inputs(k)) for k in range(op.InputsLength())],
                        "outputs": [int(op.Outputs(k)) for k in range(op.OutputsLength())],
                        "intermediates": [int(op.Intermediates(k)) for k in range(op.IntermediatesLength())],
                        "options_type": on, "options": od, "custom_options": co.hex()})
        out["subgraphs"].append({"name": (sg.Name() or b"").decode("latin1"),
                                 "inputs": [int(sg.Inputs(k)) for k in range(sg.InputsLength())],
                                 "outputs": [int(sg.Outputs(k)) for k in range(sg.OutputsLength())],
                                 "tensors": tensors, "operators": ops})
    for i in range(m.MetadataLength()):
        md = m.Metadata(i)
        out["metadata"][(md.Name() or b"").decode("latin1")] = bufs[md.Buffer()]
    out["_bufs"] = bufs
    return out


def tensor_bytes(summary, sgi, ti):
    t = summary["subgraphs"][sgi]["tensors"][ti]
    return summary["_bufs"][t["buffer"]]


def offline_allocation(summary):
    """OfflineMemoryAllocation metadata: [version, n_subgraphs, n_tensors, offsets...] (int32, -1 = not allocated)"""
    d = summary["metadata"].get("OfflineMemoryAllocation")
    if d is None:
        return None
    vals = list(struct.unpack("<%di" % (len(d) // 4), d))
    return {"version": vals[0], "subgraphs": vals[1], "n": vals[2], "offsets": vals[3:3 + vals[2]]}


def npu_ops(summary):
    """[(subgraph index, operator dict)] of ethos-u custom operators"""
    res = []
    for si, sg in enumerate(summary["subgraphs"]):
        for op in sg["operators"]:
            if op["opcode"] == "CUSTOM" and op["custom_code"] == "ethos-u":
                res.append((si, op))
    return res


if __name__ == "__main__":
    import json
    s = summarise(sys.argv[1])
    s.pop("_bufs")
    s["metadata"] = {k: v.hex()[:200] for k, v in s["metadata"].items()}
    print(json.dumps(s, indent=1)[:6000])
