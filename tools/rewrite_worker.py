"""rewrite_worker.py <cases.json> <out.json>: the decision of Vela's replace_dilated_convolution on real operator triples.
Each case is [ih, iw, c, oc, kh, kw, bh, bw, pt, pb, pl, pr, ct, cb, cl, cr, depthwise]; a model SPACE_TO_BATCH_ND -> CONV_2D /
DEPTHWISE_CONV_2D (VALID) -> BATCH_TO_SPACE_ND with these paddings / crops is written with tools/netgen.py, read with Vela's
own reader, and the rewrite is applied to the BATCH_TO_SPACE_ND operator.  Result per case: 0 (operators left alone),
1 (one convolution with SAME padding), 2 (VALID), and the dilation it set; -1 when the case is not a consistent model.
Run with PYTHONPATH=<repo>."""
import json
import os
import random
import sys
import tempfile

sys.path.insert(0, os.path.dirname(os.path.abspath(__file__)))
import netgen  # noqa: E402


def build(case):
    ih, iw, c, oc, kh, kw, bh, bw, pt, pb, pl, pr, ct, cb, cl, cr, dw = case
    ph, pw = ih + pt + pb, iw + pl + pr
    if ph % bh or pw % bw:
        return None
    sh, sw = ph // bh, pw // bw
    if sh - kh + 1 <= 0 or sw - kw + 1 <= 0:
        return None
    oh, ow = (sh - kh + 1) * bh - ct - cb, (sw - kw + 1) * bw - cl - cr
    if oh <= 0 or ow <= 0:
        return None
    rng = random.Random(str(case))
    net = netgen.Net("rw")
    x = net.input([1, ih, iw, c], "int8", 0.05, 3)
    blk = net.tensor([2], "int32", None, None, [bh, bw], name="block_shape")
    pads = net.tensor([2, 2], "int32", None, None, [[pt, pb], [pl, pr]], name="s2b_paddings")
    sb = net.tensor([bh * bw, sh, sw, c], "int8", x.scale, x.zp)
    net.op("SPACE_TO_BATCH_ND", [x, blk, pads], [sb], {})
    if dw:
        cv = netgen.depthwise(net, rng, sb, (kh, kw), (1, 1), (1, 1), "VALID")
    else:
        cv = netgen.conv2d(net, rng, sb, oc, (kh, kw), (1, 1), (1, 1), "VALID")
    crops = net.tensor([2, 2], "int32", None, None, [[ct, cb], [cl, cr]], name="b2s_crops")
    y = net.tensor([1, oh, ow, cv.shape[3]], "int8", cv.scale, cv.zp)
    net.op("BATCH_TO_SPACE_ND", [cv, blk, crops], [y], {})
    net.output(y)
    return net.build(), (oh, ow)


def build_dilated(case):
    """[h, w, c, oc, kh, kw, dh, dw, uint8, depthwise]: one SAME convolution with these dilation factors"""
    h, w, c, oc, kh, kw, dh, dw, u8, dwise = case
    rng = random.Random(str(case))
    net = netgen.Net("dil")
    dt = "uint8" if u8 else "int8"
    x = net.input([1, h, w, c], dt, 0.05, 3 if not u8 else 120)
    if dwise:
        y = netgen.depthwise(net, rng, x, (kh, kw), (1, 1), (dh, dw), "SAME")
    else:
        y = netgen.conv2d(net, rng, x, oc, (kh, kw), (1, 1), (dh, dw), "SAME")
    net.output(y)
    return net.build()


def main_dilation(cases):
    """the kernel fixup_dilation_gt2 writes: per case [hw_dil_h, hw_dil_w, new_h, new_w, plane of (in 0, out 0) row major],
    preceded by what went in: [fill (weights' zero point), original plane row major]"""
    from ethosu.vela import model_reader
    from ethosu.vela.architecture_features import Accelerator, create_default_arch
    from ethosu.vela.tflite_graph_optimiser import fixup_dilation_gt2
    arch = create_default_arch(Accelerator.Ethos_U55_128)
    out = []
    tmp = tempfile.mkdtemp(prefix="rw_", dir=os.environ.get("VERIF_TMP"))
    for i, case in enumerate(cases):
        path = os.path.join(tmp, "d%d.tflite" % i)
        open(path, "wb").write(build_dilated(case))
        nng, _ = model_reader.read_model(path, model_reader.ModelReaderOptions())
        os.remove(path)
        op = [o for o in nng.subgraphs[0].get_all_ops() if o.type.is_conv2d_op() or o.type.is_depthwise_conv2d_op()][0]
        op.run_on_npu = True
        zp = op.weights.quantization.zero_point
        import numpy as np
        fill = int(np.asarray(zp).reshape(-1)[0])
        before = [int(v) for v in np.asarray(op.weights.values)[:, :, 0, 0].reshape(-1)]
        res = fixup_dilation_gt2(op, arch, nng)
        wv = np.asarray(res.weights.values)
        dil = res.attrs.get("dilation")
        out.append({"fill": fill, "before": before,
                    "after": [int(dil[1]), int(dil[2]), int(wv.shape[0]), int(wv.shape[1])] + [int(v) for v in wv[:, :, 0, 0].reshape(-1)],
                    "weights_shape": [int(v) for v in res.weights.shape]})
    os.rmdir(tmp)
    return out


def main_padsplit(cases):
    """[n, h, w, c, b0, b1, h0, h1, w0, w1, c0, c1]: one PAD; the result of split_pad_to_sub_pad: [0] when the operation is
    left alone, else [1, axis whose padding it keeps, its paddings (8), the paddings of the PAD put in front (8),
    the extents of the tensor between the two (4)]; and whether the source's paddings constant was left untouched"""
    import numpy as np
    from ethosu.vela import model_reader
    from ethosu.vela.architecture_features import Accelerator, create_default_arch
    from ethosu.vela.operation import Op
    from ethosu.vela.tflite_graph_optimiser import split_pad_to_sub_pad
    arch = create_default_arch(Accelerator.Ethos_U55_128)
    out = []
    tmp = tempfile.mkdtemp(prefix="rw_", dir=os.environ.get("VERIF_TMP"))
    for i, case in enumerate(cases):
        n, h, w, c = case[:4]
        pv = [[case[4], case[5]], [case[6], case[7]], [case[8], case[9]], [case[10], case[11]]]
        net = netgen.Net("padsplit")
        x = net.input([n, h, w, c], "int8", 0.05, 3)
        pt = net.tensor([4, 2], "int32", None, None, pv, name="paddings")
        y = net.tensor([d + a + b for d, (a, b) in zip([n, h, w, c], pv)], "int8", x.scale, x.zp)
        net.op("PAD", [x, pt], [y], {})
        net.output(y)
        path = os.path.join(tmp, "p%d.tflite" % i)
        open(path, "wb").write(net.build())
        nng, _ = model_reader.read_model(path, model_reader.ModelReaderOptions())
        os.remove(path)
        op = [o for o in nng.subgraphs[0].get_all_ops() if o.type == Op.Pad][0]
        op.run_on_npu = True
        src_pad = op.inputs[1]
        before = np.array(src_pad.values).copy()
        res = split_pad_to_sub_pad(op, arch, nng)
        untouched = bool((np.array(src_pad.values) == before).all())
        prod = res.inputs[0].ops[0] if res.inputs[0].ops else None
        if prod is None or prod.type != Op.Pad:
            out.append({"r": [0], "untouched": untouched})
            continue
        kept = np.array(res.inputs[1].values).reshape(4, 2)
        moved = np.array(prod.inputs[1].values).reshape(4, 2)
        axis = [a for a in range(4) if kept[a].sum() != 0]
        out.append({"r": [1, axis[0] if len(axis) == 1 else -1] + [int(v) for v in kept.reshape(-1)] + [int(v) for v in moved.reshape(-1)],
                    "mid": [int(v) for v in res.inputs[0].shape], "untouched": untouched})
    os.rmdir(tmp)
    return out


def main_avgconv(cases):
    """[h, w, c, k, stride, uint8]: one AVERAGE_POOL_2D with a k x k window and that stride; what convert_avg_pool_to_conv2d
    makes of it: type, weights shape, whether all window positions carry the same plane, that plane (row = input channel),
    the weights' scale as float32 hex, the rounding mode"""
    import numpy as np
    from ethosu.vela import model_reader
    from ethosu.vela.architecture_features import Accelerator, create_default_arch
    from ethosu.vela.operation import Op
    from ethosu.vela.tflite_graph_optimiser import convert_avg_pool_to_conv2d
    arch = create_default_arch(Accelerator.Ethos_U55_128)
    out = []
    tmp = tempfile.mkdtemp(prefix="rw_", dir=os.environ.get("VERIF_TMP"))
    for i, case in enumerate(cases):
        h, w, c, k, st, u8 = case
        rng = random.Random(str(case))
        net = netgen.Net("avgconv")
        x = net.input([1, h, w, c], "uint8" if u8 else "int8", 0.05, 3 if not u8 else 120)
        y = netgen.pool(net, rng, x, "AVERAGE_POOL_2D", (k, k), (st, st), "VALID")
        net.output(y)
        path = os.path.join(tmp, "a%d.tflite" % i)
        open(path, "wb").write(net.build())
        nng, _ = model_reader.read_model(path, model_reader.ModelReaderOptions())
        os.remove(path)
        op = [o for o in nng.subgraphs[0].get_all_ops() if o.type == Op.AvgPool][0]
        op.run_on_npu = True
        op.set_ifm_ofm_shapes()
        res = convert_avg_pool_to_conv2d(op, arch, nng)
        if res.type != Op.Conv2DBias:
            out.append({"converted": 0})
            continue
        wv = np.asarray(res.weights.values)
        same = bool(all((wv[a, b] == wv[0, 0]).all() for a in range(wv.shape[0]) for b in range(wv.shape[1])))
        out.append({"converted": 1, "shape": [int(v) for v in wv.shape], "same_plane_everywhere": same,
                    "plane": [int(v) for v in wv[0, 0].reshape(-1)],
                    "scale": float(np.float32(res.weights.quantization.scale_f32)).hex(),
                    "zero_point": int(np.asarray(res.weights.quantization.zero_point).reshape(-1)[0]),
                    "rounding": str(res.rounding_mode)})
    os.rmdir(tmp)
    return out


def main_groups(cases):
    """[h, w, groups, icg, ocg, k, per_axis, bias, act]: one grouped CONV_2D; what convert_conv_groups makes of it: per group
    the input-channel slice (from the SPLIT), the filter slice (by comparing the group's weights with the source's), the
    bias slice, whether the fused activation is carried, and the order of the concatenation"""
    import numpy as np
    from ethosu.vela import model_reader
    from ethosu.vela.architecture_features import Accelerator, create_default_arch
    from ethosu.vela.operation import Op
    from ethosu.vela.tflite_graph_optimiser import convert_conv_groups
    arch = create_default_arch(Accelerator.Ethos_U55_128)
    out = []
    tmp = tempfile.mkdtemp(prefix="rw_", dir=os.environ.get("VERIF_TMP"))
    for i, case in enumerate(cases):
        h, w, groups, icg, ocg, k, per_axis, bias, act = case
        rng = random.Random(str(case))
        net = netgen.Net("groups")
        x = net.input([1, h, w, groups * icg], "int8", 0.05, 3)
        y = netgen.conv2d(net, rng, x, groups * ocg, (k, k), (1, 1), (1, 1), "SAME", act=["NONE", "RELU", "RELU6"][act],
                          per_axis=bool(per_axis), bias=bool(bias), groups=groups)
        net.output(y)
        path = os.path.join(tmp, "g%d.tflite" % i)
        open(path, "wb").write(net.build())
        nng, _ = model_reader.read_model(path, model_reader.ModelReaderOptions())
        os.remove(path)
        from ethosu.vela.tflite_model_semantic import TFLiteSemantic
        op = [o for o in nng.subgraphs[0].get_all_ops() if o.type.is_conv2d_op()][0]
        TFLiteSemantic().is_operator_semantic_valid(op)        # sets attrs["num_conv_groups"] the way the compiler does
        op.run_on_npu = True
        op.set_ifm_ofm_shapes()
        src_w = np.asarray(op.weights.values).copy()           # HWIO
        src_b = None if op.bias is None else np.asarray(op.bias.values).copy()
        src_act = None if op.activation is None else str(op.activation.op_type)
        res = convert_conv_groups(op, arch, nng)
        if res.type != Op.ConcatTFLite:
            out.append({"converted": 0, "num_conv_groups": int(op.attrs.get("num_conv_groups", 0))})
            continue
        rows, ok_w, ok_b, acts = [], True, True, []
        ic_lo = 0
        for part in res.inputs:
            conv = part.ops[0]
            gi = conv.inputs[0].shape[-1]
            wv = np.asarray(conv.weights.values)
            # which filters of the source are these?
            lo = [o_ for o_ in range(src_w.shape[-1] - wv.shape[-1] + 1) if (src_w[..., o_:o_ + wv.shape[-1]] == wv).all()]
            # (equal filters make the position ambiguous: prefer the slice that continues the previous group's)
            prev_hi = rows[-1] if rows else 0
            oc_lo = prev_hi if prev_hi in lo else (lo[0] if lo else -1)
            if conv.bias is not None and src_b is not None and oc_lo >= 0:
                ok_b = ok_b and bool((np.asarray(conv.bias.values) == src_b[oc_lo:oc_lo + wv.shape[-1]]).all())
            elif (conv.bias is None) != (src_b is None):
                ok_b = False
            split_index = list(conv.inputs[0].ops[0].outputs).index(conv.inputs[0])
            rows += [split_index * gi, split_index * gi + gi, oc_lo, oc_lo + wv.shape[-1]]
            acts.append(None if conv.activation is None else str(conv.activation.op_type))
        out.append({"converted": 1, "rows": [int(v) for v in rows], "bias_slices_match": ok_b, "activations": acts, "source_activation": src_act})
    os.rmdir(tmp)
    return out


def main_stridefold(cases):
    """[h, w, c, oc, kh, kw, stride_w, same, uint8]: one CONV_2D, first operator of its network, with that width stride; what
    fixup_strided_conv makes of it: folded or not, fold factor, remaining stride, zeros put in front of / behind the
    kernel (found by locating the source kernel in the folded one), folded IFM extents, padding mode afterwards"""
    import numpy as np
    from ethosu.vela import model_reader
    from ethosu.vela.architecture_features import Accelerator, create_default_arch
    from ethosu.vela.tflite_graph_optimiser import fixup_strided_conv
    arch = create_default_arch(Accelerator.Ethos_U55_128)
    out = []
    tmp = tempfile.mkdtemp(prefix="rw_", dir=os.environ.get("VERIF_TMP"))
    for i, case in enumerate(cases):
        h, w, c, oc, kh, kw, sw, same, u8 = case
        rng = random.Random(str(case))
        net = netgen.Net("stridefold")
        x = net.input([1, h, w, c], "uint8" if u8 else "int8", 0.05, 120 if u8 else 3)
        y = netgen.conv2d(net, rng, x, oc, (kh, kw), (1, sw), (1, 1), "SAME" if same else "VALID", per_axis=False)
        net.output(y)
        path = os.path.join(tmp, "s%d.tflite" % i)
        open(path, "wb").write(net.build())
        nng, _ = model_reader.read_model(path, model_reader.ModelReaderOptions())
        os.remove(path)
        op = [o for o in nng.subgraphs[0].get_all_ops() if o.type.is_conv2d_op()][0]
        op.run_on_npu = True
        op.set_ifm_ofm_shapes()
        src = np.asarray(op.weights.values).copy()         # HWIO
        zp = int(np.asarray(op.weights.quantization.zero_point).reshape(-1)[0])
        ofm_w = int(op.ofm_shapes[0].width)
        res = fixup_strided_conv(op, arch, nng)
        new = np.asarray(res.weights.values)
        if list(new.shape) == list(src.shape):
            out.append({"folded": 0, "op_index": int(op.op_index), "ofm_w": ofm_w})
            continue
        n = new.shape[2] // src.shape[2]
        tot = new.shape[1] * n - src.shape[1]
        # every position at which the source kernel (padded with the zero point) is the folded kernel; more than one when the
        # outer columns of the kernel hold the zero point themselves
        founds = []
        for l in range(tot + 1):
            padded = np.pad(src, [(0, 0), (l, tot - l), (0, 0), (0, 0)], constant_values=zp)
            if (padded.reshape(new.shape) == new).all():
                founds.append(l)
        found = founds[0] if founds else -1
        from ethosu.vela.graph_optimiser_util import needed_total_padding
        real_pads = [int(needed_total_padding(w, sw, kw)) // 2,
                     int(needed_total_padding(w // n, int(res.attrs["stride_w"]), new.shape[1])) // 2] if same else [0, 0]
        out.append({"folded": 1, "n": int(n), "s": int(res.attrs["stride_w"]), "l": int(found), "r": int(tot - found) if found >= 0 else -1,
                    "real_pads": real_pads, "ls": founds,
                    "ifm": [int(v) for v in res.ifm_shapes[0].as_list()], "padding": str(res.attrs.get("padding")), "ofm_w": ofm_w, "zp": zp})
    os.rmdir(tmp)
    return out


def main_prelu(cases):
    """[seed]: the PRELU network netgen draws for that seed; what convert_prelu makes of the operator: 0 RELU, 1 LEAKY_RELU,
    2 MAXIMUM, 3 ADD (of RELU and the slope times MINIMUM); plus the slope codes, their zero point and the scale as an
    exact fraction"""
    import numpy as np
    from fractions import Fraction
    from ethosu.vela import model_reader
    from ethosu.vela.architecture_features import Accelerator, create_default_arch
    from ethosu.vela.operation import Op
    from ethosu.vela.tflite_graph_optimiser import convert_prelu
    arch = create_default_arch(Accelerator.Ethos_U55_128)
    out = []
    tmp = tempfile.mkdtemp(prefix="rw_", dir=os.environ.get("VERIF_TMP"))
    for i, (seed,) in enumerate(cases):
        net = netgen.generate("single:prelu", "rw%d" % seed)
        path = os.path.join(tmp, "p%d.tflite" % i)
        open(path, "wb").write(net.build())
        nng, _ = model_reader.read_model(path, model_reader.ModelReaderOptions())
        os.remove(path)
        ops = [o for o in nng.subgraphs[0].get_all_ops() if o.type == Op.Prelu]
        if not ops:
            out.append({"kind": -1})
            continue
        op = ops[0]
        op.run_on_npu = True
        op.set_ifm_ofm_shapes()
        alpha = op.inputs[1]
        codes = [int(v) for v in np.asarray(alpha.values).reshape(-1)]
        zp = int(np.asarray(alpha.quantization.zero_point).reshape(-1)[0])
        fr = Fraction(float(np.float32(np.asarray(alpha.quantization.scale_f32).reshape(-1)[0])))
        res = convert_prelu(op, arch, nng)
        kind = {Op.Relu: 0, Op.LeakyRelu: 1, Op.Maximum: 2, Op.Add: 3}.get(res.type, 9)
        out.append({"kind": kind, "codes": codes, "zp": zp, "sn": fr.numerator, "sd": fr.denominator, "dtype": str(alpha.dtype)})
    os.rmdir(tmp)
    return out


def main_parts(cases):
    """[kind (0 CONCATENATION, 1 SPLIT, 2 SPLIT_V, 3 PACK), rank, axis, other extent, extents...]: the operator over tensors of
    that rank; what rewrite_concat_ops / rewrite_split_ops make of it: per part the offset along the 4-D axis (write offset
    of the copy for a concatenation, read offset of the slice for a split), the 4-D axis, and the part's extent there"""
    import numpy as np
    from ethosu.vela import model_reader
    from ethosu.vela.architecture_features import Accelerator, create_default_arch
    from ethosu.vela.operation import Op
    from ethosu.vela.tflite_graph_optimiser import rewrite_concat_ops, rewrite_split_ops
    arch = create_default_arch(Accelerator.Ethos_U55_128)
    out = []
    tmp = tempfile.mkdtemp(prefix="rw_", dir=os.environ.get("VERIF_TMP"))
    for i, case in enumerate(cases):
        kind, rank, axis, other = case[:4]
        es = case[4:]
        net = netgen.Net("parts")

        def shp(e):
            s_ = [1] + [other] * (rank - 1)
            if kind != 3:
                s_[axis] = e
            return s_
        if kind == 0 or kind == 3:
            xs = [net.input(shp(e), "int8", 0.05, 3, name="in%d" % k) for k, e in enumerate(es)]
            if kind == 0:
                oshape = shp(sum(es))
                y = net.tensor(oshape, "int8", 0.05, 3)
                net.op("CONCATENATION", xs, [y], dict(Axis=axis, FusedActivationFunction=0))
            else:
                base = shp(0)
                oshape = base[:axis] + [len(es)] + base[axis:]
                y = net.tensor(oshape, "int8", 0.05, 3)
                net.op("PACK", xs, [y], dict(ValuesCount=len(es), Axis=axis))
            net.output(y)
        else:
            x = net.input(shp(sum(es)), "int8", 0.05, 3)
            ys = [net.tensor(shp(e), "int8", 0.05, 3) for e in es]
            ax = net.tensor([], "int32", None, None, [axis], name="axis")
            if kind == 1:
                net.op("SPLIT", [ax, x], ys, dict(NumSplits=len(es)))
            else:
                sz = net.tensor([len(es)], "int32", None, None, list(es), name="sizes")
                net.op("SPLIT_V", [x, sz, ax], ys, dict(NumSplits=len(es)))
            net.output(*ys)
        path = os.path.join(tmp, "c%d.tflite" % i)
        open(path, "wb").write(net.build())
        nng, _ = model_reader.read_model(path, model_reader.ModelReaderOptions())
        os.remove(path)
        sg = nng.subgraphs[0]
        if kind in (0, 3):
            op = [o for o in sg.get_all_ops() if o.type.is_concat_op()][0]
            op.run_on_npu = True
            op.set_ifm_ofm_shapes()
            ofm = op.ofm
            rewrite_concat_ops(op, arch)
            rows = []
            for cp in ofm.ops:
                wo = cp.write_offset.as_list()
                ax4 = [a for a in range(4) if wo[a] != 0]
                rows.append((wo, cp.ifm_shapes[0].as_list(), ax4))
            # the 4-D axis: the one on which some copy has a non-zero offset
            axes = sorted(set(a for r in rows for a in r[2]))
            ax4 = axes[0] if len(axes) == 1 else -1
            out.append({"axis4": ax4, "offsets": [int(r[0][ax4]) for r in rows] if ax4 >= 0 else [],
                        "extents": [int(r[1][ax4]) for r in rows] if ax4 >= 0 else [], "other_axes_zero": all(len(r[2]) <= 1 for r in rows)})
        else:
            op = [o for o in sg.get_all_ops() if o.type.is_split_op()][0]
            op.run_on_npu = True
            op.set_ifm_ofm_shapes()
            outs = list(op.outputs)
            offs, exts, ax_seen = [], [], set()
            for t in outs:
                rewrite_split_ops(t, arch, nng)
                sl = t.ops[0]
                ro = sl.read_offsets[0].as_list()
                for a in range(4):
                    if ro[a] != 0:
                        ax_seen.add(a)
                offs.append(ro)
                exts.append(sl.read_shapes[0].as_list() if sl.read_shapes[0] is not None else sl.ofm_shapes[0].as_list())
            ax4 = sorted(ax_seen)[0] if len(ax_seen) == 1 else -1
            out.append({"axis4": ax4, "offsets": [int(o_[ax4]) for o_ in offs] if ax4 >= 0 else [],
                        "extents": [int(e_[ax4]) for e_ in exts] if ax4 >= 0 else [], "other_axes_zero": len(ax_seen) <= 1})
    os.rmdir(tmp)
    return out


def main_tconv(cases):
    """[h, w, c, oc, kh, kw, stride, same]: one TRANSPOSE_CONV; the explicit padding (top, left, bottom, right) that
    fixup_conv2d_backprop + add_padding_fields give the operator, its resampling mode and its stride afterwards"""
    from ethosu.vela import model_reader
    from ethosu.vela.architecture_features import Accelerator, create_default_arch
    from ethosu.vela.operation import Op
    from ethosu.vela.tflite_graph_optimiser import fixup_conv2d_backprop, add_padding_fields
    arch = create_default_arch(Accelerator.Ethos_U55_128)
    out = []
    tmp = tempfile.mkdtemp(prefix="rw_", dir=os.environ.get("VERIF_TMP"))
    for i, case in enumerate(cases):
        h, w, c, oc, kh, kw, st, same = case
        rng = random.Random(str(case))
        net = netgen.Net("tconv")
        x = net.input([1, h, w, c], "int8", 0.05, 3)
        y = netgen.transpose_conv(net, rng, x, oc, (kh, kw), (st, st), "SAME" if same else "VALID")
        net.output(y)
        path = os.path.join(tmp, "t%d.tflite" % i)
        open(path, "wb").write(net.build())
        nng, _ = model_reader.read_model(path, model_reader.ModelReaderOptions())
        os.remove(path)
        op = [o for o in nng.subgraphs[0].get_all_ops() if o.type == Op.Conv2DBackpropInput][0]
        op.run_on_npu = True
        op.set_ifm_ofm_shapes()
        op = fixup_conv2d_backprop(op, arch, nng)
        op.set_ifm_ofm_shapes()
        op = add_padding_fields(op, arch, nng)
        pad = [int(v) for v in op.attrs["explicit_padding"]]
        out.append({"pad": pad, "resampling": str(op.ifm_resampling_mode), "stride": [int(op.attrs["stride_h"]), int(op.attrs["stride_w"])],
                    "ifm": [int(v) for v in op.ifm_shapes[0].as_list()], "ofm": [int(v) for v in op.ofm_shapes[0].as_list()]})
    os.rmdir(tmp)
    return out


def main_padskirt(cases):
    """[same, h, w, kh, kw, sy, sx, dy, dx]: calc_padding_and_skirt on a Kernel and an input shape: (top, left, bottom, right)"""
    from ethosu.vela.operation import Kernel, Padding
    from ethosu.vela.shape4d import Shape4D
    from ethosu.vela.tflite_graph_optimiser import calc_padding_and_skirt
    out = []
    for same, h, w, kh, kw, sy, sx, dy, dx in cases:
        pad, skirt = calc_padding_and_skirt(Padding.SAME if same else Padding.VALID, Kernel(kw, kh, sx, sy, dx, dy), Shape4D(1, h, w, 8), None)
        out.append([int(v) for v in pad])
    return out


def main_meanparts(cases):
    """[h, w, c, mode (0 = H and W, 1 = H only, 2 = W only), keep_dims]: one MEAN; what convert_mean_to_depthwise_conv makes of
    it: the depthwise convolutions that reach the result (found by walking back from the returned operator), each with
    the row it starts reading at, the rows it reads, its kernel (height, width), and the extents of the map they read"""
    import numpy as np
    from ethosu.vela import model_reader
    from ethosu.vela.architecture_features import Accelerator, create_default_arch
    from ethosu.vela.operation import Op
    from ethosu.vela.tflite_graph_optimiser import convert_mean_to_depthwise_conv
    arch = create_default_arch(Accelerator.Ethos_U55_128)
    out = []
    tmp = tempfile.mkdtemp(prefix="rw_", dir=os.environ.get("VERIF_TMP"))
    for i, case in enumerate(cases):
        h, w, c, mode, keep = case
        rng = random.Random(str(case))
        net = netgen.Net("meanparts")
        x = net.input([1, h, w, c], "int8", 0.05, 3)
        y = netgen.mean(net, rng, x, [(1, 2), (1,), (2,)][mode], keep=bool(keep))
        net.output(y)
        path = os.path.join(tmp, "m%d.tflite" % i)
        open(path, "wb").write(net.build())
        nng, _ = model_reader.read_model(path, model_reader.ModelReaderOptions())
        os.remove(path)
        op = [o for o in nng.subgraphs[0].get_all_ops() if o.type == Op.Mean][0]
        from ethosu.vela.tflite_model_semantic import TFLiteSemantic
        if not (TFLiteSemantic().is_operator_semantic_valid(op) and arch.tflite_supported_operators.is_operator_supported(op)):
            out.append({"result_type": "not for the NPU", "convs": []})
            continue
        op.run_on_npu = True
        op.set_ifm_ofm_shapes()
        res = convert_mean_to_depthwise_conv(op, arch, nng)
        convs, seen, todo = [], set(), [res]
        while todo:
            o = todo.pop()
            if id(o) in seen:
                continue
            seen.add(id(o))
            if o.type == Op.DepthwiseConv2DBias:
                ro = o.read_offsets[0].as_list() if o.read_offsets[0] is not None else [0, 0, 0, 0]
                rs = o.read_shapes[0].as_list() if o.read_shapes[0] is not None else o.ifm_shapes[0].as_list()
                wsh = [int(v) for v in o.weights.shape]
                convs.append([int(ro[1]), int(rs[1]), wsh[0], wsh[1], int(ro[2]), int(rs[2])] + [int(v) for v in o.ifm_shapes[0].as_list()])
                continue
            for t in o.inputs:
                if t is not None:
                    todo.extend(t.ops)
        convs.sort()
        out.append({"result_type": str(res.type), "convs": convs})
    os.rmdir(tmp)
    return out


def main_padconcat(cases):
    """[n, h, w, c, axis (0 batch / 3 channels), front, behind]: one PAD that pads that axis only; what convert_pad_to_concat makes
    of it: the concatenation axis, per part its extent along the axis, whether it is the source tensor, and whether the
    constant parts hold the zero point; the output extent"""
    import numpy as np
    from ethosu.vela import model_reader
    from ethosu.vela.architecture_features import Accelerator, create_default_arch
    from ethosu.vela.operation import Op
    from ethosu.vela.tflite_graph_optimiser import convert_pad_to_concat
    arch = create_default_arch(Accelerator.Ethos_U55_128)
    out = []
    tmp = tempfile.mkdtemp(prefix="rw_", dir=os.environ.get("VERIF_TMP"))
    for i, case in enumerate(cases):
        n, h, w, c, axis, front, behind = case
        pv = [[0, 0], [0, 0], [0, 0], [0, 0]]
        pv[axis] = [front, behind]
        net = netgen.Net("padconcat")
        x = net.input([n, h, w, c], "int8", 0.05, 7)
        pt = net.tensor([4, 2], "int32", None, None, pv, name="paddings")
        y = net.tensor([d + a + b for d, (a, b) in zip([n, h, w, c], pv)], "int8", x.scale, x.zp)
        net.op("PAD", [x, pt], [y], {})
        net.output(y)
        path = os.path.join(tmp, "q%d.tflite" % i)
        open(path, "wb").write(net.build())
        nng, _ = model_reader.read_model(path, model_reader.ModelReaderOptions())
        os.remove(path)
        op = [o for o in nng.subgraphs[0].get_all_ops() if o.type == Op.Pad][0]
        op.run_on_npu = True
        op.set_ifm_ofm_shapes()
        src = op.inputs[0]
        res = convert_pad_to_concat(op, arch, nng)
        if res.type != Op.ConcatTFLite:
            out.append({"converted": 0})
            continue
        ax = int(res.attrs["axis"]) % 4
        parts = []
        for t in res.inputs:
            is_src = t is src
            zp_ok = True if is_src else bool((np.asarray(t.values) == 7).all())
            parts.append([int(t.shape[ax]), 1 if is_src else 0, 1 if zp_ok else 0])
        out.append({"converted": 1, "axis": ax, "parts": parts, "out": int(res.outputs[0].shape[ax])})
    os.rmdir(tmp)
    return out


def main():
    cases = json.load(open(sys.argv[1]))
    if len(sys.argv) > 3 and sys.argv[3] == "padconcat":
        json.dump(main_padconcat(cases), open(sys.argv[2], "w"))
        return
    if len(sys.argv) > 3 and sys.argv[3] == "meanparts":
        json.dump(main_meanparts(cases), open(sys.argv[2], "w"))
        return
    if len(sys.argv) > 3 and sys.argv[3] == "padskirt":
        json.dump(main_padskirt(cases), open(sys.argv[2], "w"))
        return
    if len(sys.argv) > 3 and sys.argv[3] == "tconv":
        json.dump(main_tconv(cases), open(sys.argv[2], "w"))
        return
    if len(sys.argv) > 3 and sys.argv[3] == "parts":
        json.dump(main_parts(cases), open(sys.argv[2], "w"))
        return
    if len(sys.argv) > 3 and sys.argv[3] == "prelu":
        json.dump(main_prelu(cases), open(sys.argv[2], "w"))
        return
    if len(sys.argv) > 3 and sys.argv[3] == "stridefold":
        json.dump(main_stridefold(cases), open(sys.argv[2], "w"))
        return
    if len(sys.argv) > 3 and sys.argv[3] == "groups":
        json.dump(main_groups(cases), open(sys.argv[2], "w"))
        return
    if len(sys.argv) > 3 and sys.argv[3] == "avgconv":
        json.dump(main_avgconv(cases), open(sys.argv[2], "w"))
        return
    if len(sys.argv) > 3 and sys.argv[3] == "padsplit":
        json.dump(main_padsplit(cases), open(sys.argv[2], "w"))
        return
    if len(sys.argv) > 3 and sys.argv[3] == "dilation":
        json.dump(main_dilation(cases), open(sys.argv[2], "w"))
        return
    from ethosu.vela import model_reader
    from ethosu.vela.architecture_features import Accelerator, create_default_arch
    from ethosu.vela.operation import Op, Padding
    from ethosu.vela.tflite_graph_optimiser import replace_dilated_convolution
    arch = create_default_arch(Accelerator.Ethos_U55_128)
    out = []
    tmp = tempfile.mkdtemp(prefix="rw_", dir=os.environ.get("VERIF_TMP"))
    for i, case in enumerate(cases):
        b = build(case)
        if b is None:
            out.append([-1, 0, 0, 0, 0])
            continue
        data, (oh, ow) = b
        path = os.path.join(tmp, "c%d.tflite" % i)
        open(path, "wb").write(data)
        nng, _ = model_reader.read_model(path, model_reader.ModelReaderOptions())
        os.remove(path)
        sg = nng.subgraphs[0]
        post = [op for op in sg.get_all_ops() if op.type == Op.BatchToSpaceND][0]
        res = replace_dilated_convolution(post, arch, nng)
        if res is post:
            out.append([0, oh, ow, 0, 0])
        else:
            pad = res.attrs.get("padding")
            dil = res.attrs.get("dilation")
            out.append([1 if pad == Padding.SAME else 2 if pad == Padding.VALID else 9, oh, ow, int(dil[1]), int(dil[2])])
    os.rmdir(tmp)
    json.dump(out, open(sys.argv[2], "w"))


if __name__ == "__main__":
    main()
