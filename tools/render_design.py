#!/usr/bin/env python3
"""Re-renders the generated blocks of DESIGN.md (between <!-- BEGIN x --> / <!-- END x --> markers) from
known_findings.json and seeded/*/meta.json, so that the document and the machine-readable records agree."""
import glob
import json
import os
import re

ROOT = os.path.dirname(os.path.dirname(os.path.abspath(__file__)))


def findings_tables():
    d = json.load(open(os.path.join(ROOT, "known_findings.json")))["findings"]
    out = ["Repaired (each a separate `fix:` commit in /repo; the existing 539 tests pass unchanged after each; a `fixed`",
           "entry suppresses nothing - the check reports the violation again if it returns):", "",
           "| commit | property | what failed |", "|---|---|---|"]
    seen = set()
    for f in d:
        if f["status"] == "fixed" and (f["commit"], f["property"]) not in seen:
            seen.add((f["commit"], f["property"]))
            out.append("| %s | %s | %s |" % (f["commit"], f["property"], f["what"].replace("|", "/")[:330]))
    out += ["", "Open known findings (genuine, not repaired: not small-and-safe, a precision limit, or deliberate behaviour with",
            "stale documentation). The checks print `KNOWN-FINDING:` for exactly these and exit 0:", "",
            "| property | match | finding |", "|---|---|---|"]
    for f in d:
        if f["status"] == "open":
            out.append("| %s | `%s` | %s |" % (f["property"], json.dumps(f["match"]).replace("|", "/"), f["what"].replace("|", "/")[:330]))
    return "\n".join(out)


def seeded_table():
    out = ["| seeded change | property | what it needs to manifest | outcome |", "|---|---|---|---|"]
    for m in sorted(glob.glob(os.path.join(ROOT, "seeded", "*", "meta.json"))):
        j = json.load(open(m))
        out.append("| `%s`: %s | %s | %s | %s |" % (os.path.basename(os.path.dirname(m)), j["change"].replace("|", "/"), j["property"],
                                                   j["needs_to_manifest"].replace("|", "/"), j["outcome"].replace("|", "/")))
    return "\n".join(out)


def main():
    p = os.path.join(ROOT, "DESIGN.md")
    s = open(p).read()
    for name, text in (("FINDINGS", findings_tables()), ("SEEDED", seeded_table())):
        b, e = "<!-- BEGIN %s -->" % name, "<!-- END %s -->" % name
        if b in s:
            s = re.sub(re.escape(b) + r".*?" + re.escape(e), lambda m: b + "\n" + text + "\n" + e, s, flags=re.S)
    open(p, "w").write(s)


if __name__ == "__main__":
    main()
