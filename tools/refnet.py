"""Reference evaluation of a (source) TFLite model for the operators the C01 check judges bit-exactly:
CONV_2D, DEPTHWISE_CONV_2D, FULLY_CONNECTED, MAX_POOL_2D, AVERAGE_POOL_2D, RESHAPE, RELU/RELU6 (and the
fused activations), int8 / uint8.  Transcribed from the TFLite reference kernels (reference_integer_ops /
reference_ops); exact integer arithmetic, multipliers derived in double precision like the kernels' Prepare.
Raises Unsupported for anything else."""
import math

import numpy as np

import tflsum


class Unsupported(Exception):
    pass


DT = {"int8": np.int8, "uint8": np.uint8, "int16": np.int16, "int32": np.int32, "int64": np.int64,
      "float32": np.float32, "bool": np.bool_}
QRANGE = {"int8": (-128, 127), "uint8": (0, 255), "int16": (-32768, 32767)}


def quantize_multiplier(d):
    if d == 0.0:
        return 0, 0
    q, shift = math.frexp(d)
    qf = int(round(q * (1 << 31)))
    if qf == (1 << 31):
        qf //= 2
        shift += 1
    if shift < -31:
        return 0, 0
    return qf, shift


def srdhm(a, b):
    if a == b and a == -(1 << 31):
        return (1 << 31) - 1
    ab = a * b
    nudge = (1 << 30) if ab >= 0 else 1 - (1 << 30)
    x = ab + nudge
    return -((-x) >> 31) if x < 0 else x >> 31      # C truncating division by 2^31


def rdbpot(x, e):
    if e <= 0:
        return x
    mask = (1 << e) - 1
    rem = x & mask
    thr = (mask >> 1) + (1 if x < 0 else 0)
    return (x >> e) + (1 if rem > thr else 0)


def mbqm(x, q, shift):
    left = shift if shift > 0 else 0
    right = -shift if shift < 0 else 0
    return rdbpot(srdhm(x * (1 << left), q), right)


def mbqm64(x, q, shift):
    """MultiplyByQuantizedMultiplier(int64_t x, ...) of kernels/internal/common.h: 16-bit reduced multiplier, one rounding"""
    rm = ((q + (1 << 15)) >> 16) if q < 0x7FFF0000 else 0x7FFF
    total = 15 - shift
    return (x * rm + (1 << (total - 1))) >> total


def act_range(act, dtype, scale, zp):
    qmin, qmax = QRANGE[dtype]

    def q(v):
        return zp + int(round(v / scale))  # TfLiteRound: half away from zero
    if act == 0:
        return qmin, qmax
    if act == 1:   # RELU
        return max(qmin, q(0.0)), qmax
    if act == 3:   # RELU6
        return max(qmin, q(0.0)), min(qmax, q(6.0))
    if act == 2:   # RELU_N1_TO_1
        return max(qmin, q(-1.0)), min(qmax, q(1.0))
    raise Unsupported("fused activation %d" % act)


def _round_half_away(v):
    return int(math.floor(abs(v) + 0.5)) * (1 if v >= 0 else -1)


class Ref:
    def __init__(self, data):
        self.s = tflsum.summarise(data)
        if len(self.s["subgraphs"]) != 1:
            raise Unsupported("several subgraphs")
        self.sg = self.s["subgraphs"][0]

    def tens(self, i):
        return self.sg["tensors"][i]

    def quant(self, i):
        t = self.tens(i)
        q = t["quant"]
        if not q or not q["scale"]:
            raise Unsupported("tensor without quantisation")
        sc = [float.fromhex(x) for x in q["scale"]]
        zp = q["zero_point"] or [0]
        return sc, zp

    def const(self, i):
        t = self.tens(i)
        b = tflsum.tensor_bytes(self.s, 0, i)
        if not b:
            return None
        return np.frombuffer(b, dtype=DT[t["type"]]).reshape(t["shape"]).astype(np.int64)

    def run(self, inputs):
        """inputs: {tensor index: np.ndarray int64}; returns {tensor index: ndarray} for subgraph outputs"""
        val = dict(inputs)
        for op in self.sg["operators"]:
            self.step(op, val)
        return {i: val[i] for i in self.sg["outputs"]}

    # operators that never run on the NPU and whose kernels are not what is being verified: a fixed, deterministic
    # stand-in function of (operator name, operand values in operand order, output type) is used for them in the
    # source model and in the output model alike - equivalence modulo uninterpreted CPU functions
    STANDIN = ("L2_NORMALIZATION", "DEQUANTIZE", "FLOOR")

    def is_standin(self, op):
        k = op["opcode"]
        if k == "CUSTOM":
            return op.get("custom_code") != "ethos-u"
        if k == "QUANTIZE":
            return self.tens(op["inputs"][0])["type"] not in QRANGE
        return k in self.STANDIN

    def standin(self, op, val):
        name = op["opcode"] + ":" + (op.get("custom_code") or "")
        h = sum((j + 1) * ord(ch) for j, ch in enumerate(name))
        for j, out in enumerate(op["outputs"]):
            t = self.tens(out)
            n = 1
            for d in t["shape"]:
                n *= d
            acc = np.full(n, h + 7 * j, dtype=np.int64)
            for pos, i in enumerate(op["inputs"]):
                if i < 0:
                    continue
                v = val.get(i)
                if v is None:
                    v = self.const(i)
                if v is None:
                    raise Unsupported("stand-in operator with an undefined operand")
                flat = np.asarray(v, dtype=np.int64).reshape(-1)
                if len(flat):
                    acc = acc + (2 * pos + 3) * np.resize(flat, n)
            lo, hi = QRANGE.get(t["type"], (-(1 << 20), 1 << 20))
            val[out] = (lo + np.mod(acc, hi - lo + 1)).reshape(t["shape"])

    def consumers(self, ti):
        return [op2 for op2 in self.sg["operators"] if ti in op2["inputs"]]

    def float_island(self, op):
        """DEQUANTIZE -> EXP | LOG -> QUANTIZE in float32 (every reader of the float tensors inside the pattern): the one
        float computation that is interpreted, because Vela may replace it by a table on the quantised codes"""
        k = op["opcode"]
        if k == "DEQUANTIZE":
            cs = self.consumers(op["outputs"][0])
            return self.tens(op["inputs"][0])["type"] in QRANGE and bool(cs) and all(
                c["opcode"] in ("EXP", "LOG") and self.float_island(c) for c in cs)
        if k in ("EXP", "LOG"):
            cs = self.consumers(op["outputs"][0])
            return self.tens(op["inputs"][0])["type"] == "float32" and bool(cs) and all(
                c["opcode"] == "QUANTIZE" and self.tens(c["outputs"][0])["type"] in ("int8", "uint8") for c in cs)
        if k == "QUANTIZE":
            prod = [p for p in self.sg["operators"] if op["inputs"][0] in p["outputs"]]
            if not prod or prod[0]["opcode"] not in ("EXP", "LOG"):
                return False
            pp = [p for p in self.sg["operators"] if prod[0]["inputs"][0] in p["outputs"]]
            return bool(pp) and pp[0]["opcode"] == "DEQUANTIZE" and self.float_island(pp[0])
        return False

    def step(self, op, val):
        k = op["opcode"]
        if k in ("DEQUANTIZE", "EXP", "LOG", "QUANTIZE") and self.float_island(op):
            i0, o0 = op["inputs"][0], op["outputs"][0]
            if k == "DEQUANTIZE":
                (si,), (zi,) = [x[:1] for x in self.quant(i0)]
                val[o0] = (val[i0].astype(np.float32) - np.float32(zi)) * np.float32(si)
            elif k == "EXP":
                val[o0] = np.exp(val[i0].astype(np.float32)).astype(np.float32)
            elif k == "LOG":
                with np.errstate(divide="ignore", invalid="ignore"):
                    val[o0] = np.log(val[i0].astype(np.float32)).astype(np.float32)
                if np.isnan(val[o0]).any():
                    raise Unsupported("LOG of a negative value")
                val[o0] = np.maximum(val[o0], np.float32(-1e30))      # log(0) = -inf quantises to the smallest code
            else:
                for c in self.consumers(o0):
                    raise Unsupported("quantised float island feeding another operator (one step allowed at an output only)")
                (so,), (zo,) = [x[:1] for x in self.quant(o0)]
                lo, hi = QRANGE[self.tens(o0)["type"]]
                q = np.clip(val[i0].astype(np.float64) / float(np.float32(so)), -1e15, 1e15)     # (an overflowed EXP saturates)
                r = np.where(q >= 0, np.floor(q + 0.5), np.ceil(q - 0.5))
                val[o0] = np.clip(r.astype(np.int64) + int(zo), lo, hi)
                self.has_table_op = True
            return
        if self.is_standin(op):
            self.standin(op, val)
            return
        if True:
            k = op["opcode"]
            o = op["options"] or {}
            ins, outs = op["inputs"], op["outputs"]
            if k in ("SPACE_TO_BATCH_ND", "BATCH_TO_SPACE_ND"):
                blk, pc = self.const(ins[1]), self.const(ins[2])
                x_ = val[ins[0]]
                if blk is None or pc is None or x_.ndim != 4 or len(blk.reshape(-1)) != 2:
                    raise Unsupported("space/batch rearrangement other than 4-D with constant block and paddings")
                bh, bw = (int(v) for v in blk.reshape(-1))
                (a0, a1), (b0, b1) = [[int(v) for v in row] for row in pc.reshape(2, 2)]
                if k == "SPACE_TO_BATCH_ND":
                    zp_ = int(self.quant(outs[0])[1][0])
                    xp = np.pad(x_, ((0, 0), (a0, a1), (b0, b1), (0, 0)), constant_values=zp_)
                    n_, hp, wp, c_ = xp.shape
                    if hp % bh or wp % bw:
                        raise Unsupported("padded extent is not a multiple of the block")
                    y_ = xp.reshape(n_, hp // bh, bh, wp // bw, bw, c_).transpose(2, 4, 0, 1, 3, 5).reshape(bh * bw * n_, hp // bh, wp // bw, c_)
                else:
                    b_, h_, w_, c_ = x_.shape
                    n_ = b_ // (bh * bw)
                    y_ = x_.reshape(bh, bw, n_, h_, w_, c_).transpose(2, 3, 0, 4, 1, 5).reshape(n_, h_ * bh, w_ * bw, c_)
                    y_ = y_[:, a0:h_ * bh - a1, b0:w_ * bw - b1, :]
                if list(y_.shape) != list(self.tens(outs[0])["shape"]):
                    raise Unsupported("declared shape of a space/batch rearrangement differs from the computed one")
                val[outs[0]] = y_
                return
            if k in ("CONV_2D", "DEPTHWISE_CONV_2D"):
                val[outs[0]] = self.conv(val[ins[0]], ins, outs[0], o, depthwise=(k != "CONV_2D"))
            elif k == "FULLY_CONNECTED":
                val[outs[0]] = self.fc(val[ins[0]], ins, outs[0], o)
            elif k in ("MAX_POOL_2D", "AVERAGE_POOL_2D"):
                val[outs[0]] = self.pool(val[ins[0]], ins[0], outs[0], o, k == "MAX_POOL_2D")
            elif k == "TRANSPOSE":
                perm = self.const(ins[1])
                if perm is None:
                    raise Unsupported("dynamic permutation")
                val[outs[0]] = np.transpose(val[ins[0]], [int(p) for p in perm.reshape(-1)])
            elif k == "STRIDED_SLICE":
                b, e, st = (self.const(ins[i]) for i in (1, 2, 3))
                if b is None or e is None or st is None or any(int(v) != 1 for v in st.reshape(-1)) or \
                        any(o.get(m, 0) for m in ("EllipsisMask", "NewAxisMask", "ShrinkAxisMask")):
                    raise Unsupported("general strided slice")
                bm, em = int(o.get("BeginMask", 0)), int(o.get("EndMask", 0))
                shp_ = val[ins[0]].shape
                idx = []
                for ax_, (x0, x1) in enumerate(zip(b.reshape(-1), e.reshape(-1))):
                    x0, x1 = int(x0), int(x1)
                    x0 = 0 if (bm >> ax_) & 1 else (x0 + shp_[ax_] if x0 < 0 else x0)
                    x1 = shp_[ax_] if (em >> ax_) & 1 else (x1 + shp_[ax_] if x1 < 0 else x1)
                    idx.append(slice(x0, x1))
                val[outs[0]] = val[ins[0]][tuple(idx)]
            elif k == "CONCATENATION":
                qo = self.quant(outs[0])
                if o.get("FusedActivationFunction", 0):
                    raise Unsupported("concatenation with fused activation")
                parts = []
                for i in ins:
                    if self.quant(i) == qo:
                        parts.append(val[i])
                        continue
                    if self.tens(outs[0])["type"] != "uint8":
                        raise Unsupported("requantising concatenation (the int8 reference kernel rejects it)")
                    # reference_ops::ConcatenationWithScaling (uint8 only), float32 arithmetic
                    (sci,), (zpi,) = [x[:1] for x in self.quant(i)]
                    (sco,), (zpo,) = [x[:1] for x in qo]
                    inv = np.float32(1.0) / np.float32(sco)
                    sc = np.float32(sci) * inv
                    bias = np.float32(-int(zpi)) * sc
                    v = val[i].astype(np.float32) * sc + bias
                    r = np.where(v >= 0, np.floor(v + np.float32(0.5)), np.ceil(v - np.float32(0.5))).astype(np.int64) + int(zpo)
                    parts.append(np.clip(r, 0, 255))
                    self.requant_concat = True       # fixed-point on the NPU: one step allowed
                val[outs[0]] = np.concatenate(parts, axis=o.get("Axis", 0))
            elif k == "PAD":
                pads = self.const(ins[1])
                if pads is None or self.quant(ins[0]) != self.quant(outs[0]):
                    raise Unsupported("general pad")
                (_, zp) = self.quant(ins[0])
                val[outs[0]] = np.pad(val[ins[0]], [(int(a), int(b2)) for a, b2 in pads.reshape(-1, 2)], constant_values=zp[0])
            elif k in ("SQUEEZE", "EXPAND_DIMS"):
                # (the kernels copy the bytes whatever the two quantisation records say, like RESHAPE)
                val[outs[0]] = val[ins[0]].reshape(self.tens(outs[0])["shape"])
            elif k == "RESHAPE":
                val[outs[0]] = val[ins[0]].reshape(self.tens(outs[0])["shape"])
            elif k in ("RESIZE_NEAREST_NEIGHBOR", "RESIZE_BILINEAR"):
                val[outs[0]] = self.resize(k, val[ins[0]], ins[0], outs[0], o)
            elif k == "TRANSPOSE_CONV":
                val[outs[0]] = self.tconv(val[ins[2]], ins, outs[0], o)
            elif k in ("MEAN", "SOFTMAX"):
                # approximated on the NPU (one step allowed): the real function of the dequantised input, requantised
                if any(outs[0] in op2["inputs"] for op2 in self.sg["operators"]):
                    raise Unsupported("%s feeding another operator" % k)
                ty = self.tens(outs[0])["type"]
                if ty not in (("int8", "uint8", "int16") if k == "MEAN" else ("int8", "uint8")) or self.tens(ins[0])["type"] != ty:
                    raise Unsupported("%s type %s" % (k, ty))
                (si,), (zi,) = [x[:1] for x in self.quant(ins[0])]
                (so,), (zo,) = [x[:1] for x in self.quant(outs[0])]
                xr = (val[ins[0]].astype(np.float64) - float(zi)) * float(np.float32(si))
                if k == "MEAN":
                    axes = self.const(ins[1])
                    if axes is None:
                        raise Unsupported("dynamic axes")
                    axes = tuple(int(a) % xr.ndim for a in np.asarray(axes).reshape(-1))
                    yr = xr.mean(axis=axes, keepdims=bool(o.get("KeepDims", False)))
                else:
                    beta = o.get("Beta", 1.0)
                    beta = float.fromhex(beta) if isinstance(beta, str) else float(beta)
                    e = np.exp((xr - xr.max(axis=-1, keepdims=True)) * beta)
                    yr = e / e.sum(axis=-1, keepdims=True)
                q = yr / float(np.float32(so))
                lo, hi = QRANGE[ty]
                r_ = np.where(q >= 0, np.floor(q + 0.5), np.ceil(q - 0.5)).astype(np.int64) + int(zo)
                self.has_table_op = True
                val[outs[0]] = np.clip(r_, lo, hi).reshape(self.tens(outs[0])["shape"])
            elif k == "QUANTIZE":
                # reference_ops::Requantize: MultiplyByQuantizedMultiplier(in - zp_in, QuantizeMultiplier(s_in / s_out)) + zp_out
                ti, to = self.tens(ins[0])["type"], self.tens(outs[0])["type"]
                if ti not in QRANGE or to not in QRANGE:
                    raise Unsupported("QUANTIZE %s -> %s" % (ti, to))
                (si,), (zi,) = [x[:1] for x in self.quant(ins[0])]
                (so,), (zo,) = [x[:1] for x in self.quant(outs[0])]
                q, sh = quantize_multiplier(float(si) / float(so))
                lo, hi = QRANGE[to]
                flat = val[ins[0]].astype(np.int64).reshape(-1)
                res = [min(hi, max(lo, mbqm(int(v) - int(zi), q, sh) + int(zo))) for v in flat]
                val[outs[0]] = np.array(res, dtype=np.int64).reshape(val[ins[0]].shape)
            elif k in ("ADD", "SUB", "MUL", "MINIMUM", "MAXIMUM"):
                if k == "MAXIMUM":
                    # MAXIMUM(x, MUL(x, constant)): Vela compiles the pair as LeakyReLU / ABS, i.e. through a table for 8-bit
                    # data: one step allowed, and only as the last operator
                    for a_, b_ in ((ins[0], ins[1]), (ins[1], ins[0])):
                        prod = [op2 for op2 in self.sg["operators"] if b_ in op2["outputs"] and op2["opcode"] == "MUL"]
                        if prod and a_ in prod[0]["inputs"] and any(self.const(i2) is not None for i2 in prod[0]["inputs"] if i2 != a_):
                            if any(outs[0] in op3["inputs"] for op3 in self.sg["operators"]):
                                raise Unsupported("MUL+MAXIMUM leaky ReLU feeding another operator")
                            self.has_table_op = True
                val[outs[0]] = self.elementwise(k, ins, outs[0], o, val)
            elif k in ("LOGISTIC", "TANH", "LEAKY_RELU", "HARD_SWISH", "EXP", "RSQRT"):
                # table-based on the NPU: the property allows one step, which is only meaningful when nothing computes
                # on the result afterwards
                # ... or only a ReLU-type clamp with the same quantisation (monotone: the step stays one step)
                for op2 in self.sg["operators"]:
                    if outs[0] in op2["inputs"]:
                        if op2["opcode"] not in ("RELU", "RELU6") or self.quant(op2["outputs"][0]) != self.quant(outs[0]) or \
                                any(op2["outputs"][0] in op3["inputs"] for op3 in self.sg["operators"]):
                            raise Unsupported("%s feeding another operator" % k)
                val[outs[0]] = self.table_op(k, ins[0], outs[0], o, val)
            elif k == "PRELU":
                val[outs[0]] = self.prelu(ins, outs[0], val)
            elif k == "SQUARED_DIFFERENCE":
                val[outs[0]] = self.sqdiff(ins, outs[0], val)
            elif k == "SPLIT_V":
                sizes, axis = self.const(ins[1]), self.const(ins[2])
                if sizes is None or axis is None:
                    raise Unsupported("dynamic split")
                cuts = np.cumsum([int(v) for v in np.asarray(sizes).reshape(-1)])[:-1]
                for oi, pv in zip(outs, np.split(val[ins[0]], cuts, axis=int(np.asarray(axis).reshape(-1)[0]))):
                    if self.quant(oi) != self.quant(ins[0]):
                        raise Unsupported("requantising split")
                    val[oi] = pv
            elif k == "SLICE":
                beg, size = self.const(ins[1]), self.const(ins[2])
                if beg is None or size is None or self.quant(ins[0]) != self.quant(outs[0]):
                    raise Unsupported("general slice")
                idx = tuple(slice(int(b0), int(b0) + int(s0)) for b0, s0 in zip(beg.reshape(-1), size.reshape(-1)))
                val[outs[0]] = val[ins[0]][idx]
            elif k == "UNPACK":
                ax = int(o.get("Axis", 0))
                for j, oi in enumerate(outs):
                    if self.quant(oi) != self.quant(ins[0]):
                        raise Unsupported("requantising unpack")
                    val[oi] = np.take(val[ins[0]], j, axis=ax)
            elif k == "PACK":
                if any(self.quant(i) != self.quant(outs[0]) for i in ins):
                    raise Unsupported("requantising pack")
                val[outs[0]] = np.stack([val[i] for i in ins], axis=int(o.get("Axis", 0)))
            elif k == "ARG_MAX":
                axis = self.const(ins[1])
                if axis is None:
                    raise Unsupported("dynamic axis")
                val[outs[0]] = np.argmax(val[ins[0]], axis=int(np.asarray(axis).reshape(-1)[0])).astype(np.int64)
            elif k == "SPLIT":
                axis = self.const(ins[0])
                if axis is None:
                    raise Unsupported("dynamic split axis")
                parts = np.split(val[ins[1]], int(o.get("NumSplits", len(outs))), axis=int(np.asarray(axis).reshape(-1)[0]))
                for oi, pv in zip(outs, parts):
                    if self.quant(oi) != self.quant(ins[1]):
                        raise Unsupported("requantising split")
                    val[oi] = pv
            elif k == "ABS":
                # elementwise.cc AbsEvalQuantized: |x - zp_in| rescaled by s_in / s_out, + zp_out
                ty = self.tens(outs[0])["type"]
                if ty not in QRANGE or self.tens(ins[0])["type"] != ty:
                    raise Unsupported("ABS type")
                (si,), (zi,) = [x_[:1] for x_ in self.quant(ins[0])]
                (so,), (zo,) = [x_[:1] for x_ in self.quant(outs[0])]
                lo, hi = QRANGE[ty]
                xv = np.abs(val[ins[0]].astype(np.int64) - int(zi))
                if float(si) == float(so):
                    r_ = xv + int(zo)
                else:
                    m_, s_ = quantize_multiplier(float(np.float32(si)) / float(np.float32(so)))
                    r_ = np.array([mbqm(int(v), m_, s_) for v in xv.reshape(-1)], dtype=np.int64).reshape(xv.shape) + int(zo)
                val[outs[0]] = np.clip(r_, lo, hi)
            elif k in ("RELU", "RELU6", "RELU_N1_TO_1"):
                t = self.tens(outs[0])
                (sc,), (zp,) = [x[:1] for x in self.quant(outs[0])]
                (sci,), (zpi,) = [x[:1] for x in self.quant(ins[0])]
                if sc != sci or zp != zpi:
                    raise Unsupported("requantising relu")
                lo, hi = act_range({"RELU": 1, "RELU_N1_TO_1": 2, "RELU6": 3}[k], t["type"], sc, zp)
                val[outs[0]] = np.clip(val[ins[0]], lo, hi)
            else:
                raise Unsupported(k)

    def sqdiff(self, ins, out_idx, val):
        """squared_difference.cc (8-bit): both inputs rescaled to 2 * max scale with a left shift of 7, difference squared,
        rescaled by (2 max)^2 / (2^14 s_out). The property lists the operator neither as exact nor as approximated; Vela builds
        it from SUB and MUL, so one step is allowed"""
        ty = self.tens(out_idx)["type"]
        if ty not in ("int8", "uint8") or any(self.tens(i)["type"] != ty for i in ins[:2]):
            raise Unsupported("SQUARED_DIFFERENCE type %s" % ty)
        (s1,), (z1,) = [x[:1] for x in self.quant(ins[0])]
        (s2,), (z2,) = [x[:1] for x in self.quant(ins[1])]
        (so,), (zo,) = [x[:1] for x in self.quant(out_idx)]
        va, vb = [val[i] if i in val else self.const(i) for i in ins[:2]]
        if va is None or vb is None:
            raise Unsupported("operand without a value")
        va, vb = np.asarray(va).astype(np.int64), np.asarray(vb).astype(np.int64)
        a = np.broadcast_to(va, np.broadcast_shapes(va.shape, vb.shape))
        b = np.broadcast_to(vb, a.shape)
        s1, s2, so = float(np.float32(s1)), float(np.float32(s2)), float(np.float32(so))
        twice_max = 2.0 * max(s1, s2)
        q1, sh1 = quantize_multiplier(s1 / twice_max)
        q2, sh2 = quantize_multiplier(s2 / twice_max)
        qo, sho = quantize_multiplier(twice_max * twice_max / (float(1 << 14) * so))
        lo, hi = QRANGE[ty]
        res = []
        for x, y in zip((a - int(z1)).reshape(-1), (b - int(z2)).reshape(-1)):
            d = mbqm(int(x) * 128, q1, sh1) - mbqm(int(y) * 128, q2, sh2)
            res.append(min(hi, max(lo, mbqm(d * d, qo, sho) + int(zo))))
        if any(out_idx in op2["inputs"] for op2 in self.sg["operators"]):
            raise Unsupported("SQUARED_DIFFERENCE feeding another operator")
        self.has_table_op = True
        return np.array(res, dtype=np.int64).reshape(a.shape)

    def prelu(self, ins, out_idx, val):
        """reference_ops::BroadcastPrelu4DSlow (8-bit; the 16-bit kernel of reference_integer_ops has the same arithmetic)"""
        ty = self.tens(out_idx)["type"]
        alpha = self.const(ins[1])
        if ty not in QRANGE or self.tens(ins[0])["type"] != ty or alpha is None:
            raise Unsupported("PRELU type / dynamic alpha")
        (si,), (zi,) = [x[:1] for x in self.quant(ins[0])]
        (sa,), (za,) = [x[:1] for x in self.quant(ins[1])]
        (so,), (zo,) = [x[:1] for x in self.quant(out_idx)]
        m1, s1 = quantize_multiplier(float(np.float32(si)) / float(np.float32(so)))
        m2, s2 = quantize_multiplier(float(np.float32(si)) * float(np.float32(sa)) / float(np.float32(so)))
        x = val[ins[0]].astype(np.int64)
        a = np.broadcast_to(np.asarray(alpha).astype(np.int64), x.shape).reshape(-1)
        if len(set(a.tolist())) == 1:
            self.has_table_op = True         # one slope: compiled as LEAKY_RELU, which may be table based (one step allowed)
        lo, hi = QRANGE[ty]
        res = []
        for v, av in zip(x.reshape(-1), a):
            iv = int(v) - int(zi)
            r = mbqm(iv, m1, s1) if iv >= 0 else mbqm(iv * (int(av) - int(za)), m2, s2)
            res.append(min(hi, max(lo, r + int(zo))))
        return np.array(res, dtype=np.int64).reshape(x.shape)

    def table_op(self, k, in_idx, out_idx, o, val):
        """the real function applied to the dequantised 8-bit input, requantised with round-half-away (the reference kernels
        stay within one step of this)"""
        ty = self.tens(out_idx)["type"]
        if ty not in (("int8", "uint8", "int16") if k == "LEAKY_RELU" else ("int8", "uint8")) or self.tens(in_idx)["type"] != ty:
            raise Unsupported("table operator type %s" % ty)
        (si,), (zi,) = [x[:1] for x in self.quant(in_idx)]
        (so,), (zo,) = [x[:1] for x in self.quant(out_idx)]
        lo, hi = QRANGE[ty]
        x = (val[in_idx].astype(np.float64) - float(zi)) * float(np.float32(si))
        if k == "LOGISTIC":
            y = 1.0 / (1.0 + np.exp(-x))
        elif k == "TANH":
            y = np.tanh(x)
        elif k == "EXP":
            y = np.exp(x)
        elif k == "RSQRT":
            if ty != "int8" or (val[in_idx].astype(np.int64) - int(zi) < 0).any():
                raise Unsupported("RSQRT of a negative value (the kernel rejects it)")
            with np.errstate(divide="ignore"):
                y = np.where(x > 0, 1.0 / np.sqrt(np.maximum(x, 1e-300)), 1e9)     # the kernel returns the largest code for 0
        elif k == "LEAKY_RELU":
            alpha = o.get("Alpha", 0.0)
            alpha = float.fromhex(alpha) if isinstance(alpha, str) else float(alpha)
            y = np.where(x >= 0, x, x * alpha)
        else:
            y = x * np.clip(x + 3.0, 0.0, 6.0) / 6.0
        q = y / float(np.float32(so))
        r = np.where(q >= 0, np.floor(q + 0.5), np.ceil(q - 0.5)).astype(np.int64) + int(zo)
        self.has_table_op = True
        return np.clip(r, lo, hi)

    def resize(self, k, x, in_idx, out_idx, o):
        """reference_ops::ResizeNearestNeighbor (exact); bilinear as the real interpolation, rounded (one step allowed: the
        property lists resize among the approximated operators)"""
        if self.quant(in_idx) != self.quant(out_idx) or self.tens(out_idx)["type"] not in ("int8", "uint8"):
            raise Unsupported("resize with requantisation / type")
        n, H, W, C = x.shape
        oh, ow = self.tens(out_idx)["shape"][1:3]
        ac, hp = bool(o.get("AlignCorners", False)), bool(o.get("HalfPixelCenters", False))
        if k != "RESIZE_NEAREST_NEIGHBOR" and any(out_idx in op2["inputs"] for op2 in self.sg["operators"]):
            raise Unsupported("bilinear resize (one step allowed) feeding another operator")
        lo, hi = QRANGE[self.tens(out_idx)["type"]]
        out = np.zeros((1, oh, ow, C), dtype=np.int64)
        if k == "RESIZE_NEAREST_NEIGHBOR":
            def src(i, n_in, n_out):
                sc = np.float32(n_in - 1) / np.float32(n_out - 1) if (ac and n_out > 1) else np.float32(n_in) / np.float32(n_out)
                off = np.float32(0.5) if hp else np.float32(0.0)
                v = (np.float32(i) + off) * sc
                j = int(np.floor(v + np.float32(0.5))) if ac else int(np.floor(v))     # TfLiteRound for align_corners
                return min(j, n_in - 1)
            for y in range(oh):
                for xx in range(ow):
                    out[0, y, xx, :] = x[0, src(y, H, oh), src(xx, W, ow), :]
            return out
        self.has_table_op = True       # one step allowed
        xf = x.astype(np.float64)
        for y in range(oh):
            sy = (H - 1) / (oh - 1) if (ac and oh > 1) else H / oh
            fy = (y + 0.5) * sy - 0.5 if hp else y * sy
            y0 = int(np.floor(fy)); dy = fy - y0
            y0c, y1c = min(max(y0, 0), H - 1), min(max(y0 + 1, 0), H - 1)
            for xx in range(ow):
                sx = (W - 1) / (ow - 1) if (ac and ow > 1) else W / ow
                fx = (xx + 0.5) * sx - 0.5 if hp else xx * sx
                x0 = int(np.floor(fx)); dx = fx - x0
                x0c, x1c = min(max(x0, 0), W - 1), min(max(x0 + 1, 0), W - 1)
                v = (xf[0, y0c, x0c, :] * (1 - dy) * (1 - dx) + xf[0, y0c, x1c, :] * (1 - dy) * dx
                     + xf[0, y1c, x0c, :] * dy * (1 - dx) + xf[0, y1c, x1c, :] * dy * dx)
                out[0, y, xx, :] = np.clip(np.where(v >= 0, np.floor(v + 0.5), np.ceil(v - 0.5)), lo, hi)
        return out

    def tconv(self, x, ins, out_idx, o):
        """reference_integer_ops::TransposeConv (int8 / uint8 legacy): scatter, bias, per-channel requantisation"""
        w = self.const(ins[1])
        bias = self.const(ins[3]) if len(ins) > 3 and ins[3] >= 0 else None
        if w is None:
            raise Unsupported("dynamic weights")
        sci, zpi = self.quant(ins[2])
        scw, zpw = self.quant(ins[1])
        if self.tens(ins[2])["type"] not in ("int8", "uint8"):
            raise Unsupported("input type")
        n, H, W, C = x.shape
        oc, kh, kw, ic = w.shape
        sh, sw_ = o.get("StrideH", 1), o.get("StrideW", 1)
        oh, ow = self.tens(out_idx)["shape"][1:3]
        if o.get("Padding", 0) == 0:   # SAME
            pt = max(0, (H - 1) * sh + kh - oh) // 2
            pl = max(0, (W - 1) * sw_ + kw - ow) // 2
        else:
            pt = pl = 0
        xz = x.astype(np.int64) - zpi[0]
        wz = w - (np.array(zpw, dtype=np.int64).reshape([-1, 1, 1, 1]) if len(zpw) > 1 else zpw[0])
        acc = np.zeros((1, oh, ow, oc), dtype=np.int64)
        for iy in range(H):
            for ix in range(W):
                for ky in range(kh):
                    oy = iy * sh - pt + ky
                    if oy < 0 or oy >= oh:
                        continue
                    for kx in range(kw):
                        ox = ix * sw_ - pl + kx
                        if ox < 0 or ox >= ow:
                            continue
                        acc[0, oy, ox, :] += wz[:, ky, kx, :] @ xz[0, iy, ix, :]
        if bias is not None:
            acc += bias.reshape([1, 1, 1, -1])
        return self._requant(acc, ins[2], ins[1], out_idx, 0, oc)

    def elementwise(self, k, ins, out_idx, o, val):
        """reference_integer_ops / reference_ops Add, Sub, Mul (8-bit), Minimum, Maximum; add.cc / sub.cc / mul.cc Prepare"""
        t = self.tens(out_idx)
        ty = t["type"]
        if ty not in ("int8", "uint8", "int16") or any(self.tens(i)["type"] != ty for i in ins):
            raise Unsupported("elementwise type %s" % ty)
        (s1,), (z1,) = [x[:1] for x in self.quant(ins[0])]
        (s2,), (z2,) = [x[:1] for x in self.quant(ins[1])]
        (so,), (zo,) = [x[:1] for x in self.quant(out_idx)]
        va, vb = [val[i] if i in val else self.const(i) for i in ins[:2]]
        if va is None or vb is None:
            raise Unsupported("elementwise operand without a value")
        va, vb = np.asarray(va).astype(np.int64), np.asarray(vb).astype(np.int64)
        a = np.broadcast_to(va, np.broadcast_shapes(va.shape, vb.shape))
        b = np.broadcast_to(vb, a.shape)
        if k in ("MINIMUM", "MAXIMUM"):
            if (s1, z1) != (s2, z2) or (s1, z1) != (so, zo):
                raise Unsupported("min/max with differing quantisation")
            return np.minimum(a, b) if k == "MINIMUM" else np.maximum(a, b)
        lo, hi = act_range(o.get("FusedActivationFunction", 0), ty, so, zo)
        s1, s2, so = np.float32(s1), np.float32(s2), np.float32(so)
        fa, fb = (a - int(z1)).reshape(-1), (b - int(z2)).reshape(-1)
        if k == "MUL":
            q, sh = quantize_multiplier(float(s1) * float(s2) / float(so))
            res = [min(hi, max(lo, mbqm(int(x) * int(y), q, sh) + int(zo))) for x, y in zip(fa, fb)]
            return np.array(res, dtype=np.int64).reshape(a.shape)
        left = 20
        if ty == "int16":
            # add.cc / sub.cc: general_scale_int16 (left shift 15) unless all three scales are powers of two and the zero
            # points 0 (pot_scale_int16, a different legacy kernel)
            def pot(v):
                m_, e_ = math.frexp(float(v))
                return m_ == 0.5
            if pot(s1) and pot(s2) and pot(so) and int(z1) == 0 and int(z2) == 0 and int(zo) == 0:
                raise Unsupported("int16 add/sub with power-of-two scales (legacy kernel)")
            left = 15
        twice_max = float(np.float32(2) * max(s1, s2))
        q1, sh1 = quantize_multiplier(float(s1) / twice_max)
        q2, sh2 = quantize_multiplier(float(s2) / twice_max)
        qo, sho = quantize_multiplier(twice_max / float(np.float32(1 << left) * so))
        if sh1 > 0 or sh2 > 0 or sho > 0:
            raise Unsupported("add/sub multiplier not smaller than one (the reference kernel aborts)")
        res = []
        for x, y in zip(fa, fb):
            sx = mbqm(int(x) * (1 << left), q1, sh1)
            sy = mbqm(int(y) * (1 << left), q2, sh2)
            raw = sx + sy if k == "ADD" else sx - sy
            res.append(min(hi, max(lo, mbqm(raw, qo, sho) + int(zo))))
        return np.array(res, dtype=np.int64).reshape(a.shape)

    def _requant(self, acc, ins0, w_idx, out_idx, act, oc, float_product=False):
        """output stage of conv / depthwise / fully connected. float_product: GetQuantizedConvolutionMultipler (uint8 and
        fully connected) multiplies the two input scales in float32; PopulateConvolutionQuantizationParams in double"""
        sci, zpi = self.quant(ins0)
        scw, zpw = self.quant(w_idx)
        sco, zpo = self.quant(out_idx)
        t = self.tens(out_idx)
        if t["type"] not in ("int8", "uint8", "int16"):
            raise Unsupported("output type %s" % t["type"])
        wide = t["type"] == "int16"
        lo, hi = act_range(act, t["type"], sco[0], zpo[0])
        out = np.empty(acc.shape, dtype=np.int64)
        for c in range(oc):
            sw = scw[c] if len(scw) > 1 else scw[0]
            if float_product or t["type"] == "uint8":
                real = float(np.float32(sci[0]) * np.float32(sw)) / float(sco[0])
            else:
                real = float(sci[0]) * float(sw) / float(sco[0])
            q, shift = quantize_multiplier(real)
            col = acc[..., c].reshape(-1)
            if wide:
                res = [min(hi, max(lo, mbqm64(int(a), q, shift) + zpo[0])) for a in col]
            else:
                res = [min(hi, max(lo, mbqm(int(a), q, shift) + zpo[0])) for a in col]
            out[..., c] = np.array(res, dtype=np.int64).reshape(acc[..., c].shape)
        return out

    def conv(self, x, ins, out_idx, o, depthwise):
        w = self.const(ins[1])
        if w is None:
            raise Unsupported("dynamic weights")
        bias = self.const(ins[2]) if len(ins) > 2 and ins[2] >= 0 else None
        sci, zpi = self.quant(ins[0])
        scw, zpw = self.quant(ins[1])
        if self.tens(ins[0])["type"] not in ("int8", "uint8", "int16"):
            raise Unsupported("input type")
        if self.tens(ins[0])["type"] == "int16" and bias is not None and self.tens(ins[2])["type"] != "int64":
            raise Unsupported("int16 with 32-bit bias (another accumulator path of the reference)")
        sh, sw_ = o.get("StrideH", 1), o.get("StrideW", 1)
        dh, dw = o.get("DilationHFactor", 1), o.get("DilationWFactor", 1)
        n, H, W, C = x.shape
        if n != 1:           # the kernels treat the batches independently
            return np.concatenate([self.conv(x[b_:b_ + 1], ins, out_idx, o, depthwise) for b_ in range(n)], axis=0)
        if depthwise:
            _, kh, kw, oc = w.shape
            mult = o.get("DepthMultiplier", 1)
        else:
            oc, kh, kw, ic = w.shape
            if ic != C and (ic <= 0 or C % ic or oc % (C // ic)):
                raise Unsupported("filter depth does not divide the input depth")
        oh, ow = self.tens(out_idx)["shape"][1:3]
        ekh, ekw = (kh - 1) * dh + 1, (kw - 1) * dw + 1
        if o.get("Padding", 0) == 0:   # SAME
            pt = max((oh - 1) * sh + ekh - H, 0) // 2
            pl = max((ow - 1) * sw_ + ekw - W, 0) // 2
        else:
            pt = pl = 0
        xz = x.astype(np.int64) - zpi[0]
        wz = w - (np.array(zpw, dtype=np.int64).reshape([-1, 1, 1, 1]) if (len(zpw) > 1 and not depthwise) else
                  (np.array(zpw, dtype=np.int64).reshape([1, 1, 1, -1]) if len(zpw) > 1 else zpw[0]))
        acc = np.zeros((1, oh, ow, oc), dtype=np.int64)
        for ky in range(kh):
            for kx in range(kw):
                for oy in range(oh):
                    iy = oy * sh + ky * dh - pt
                    if iy < 0 or iy >= H:
                        continue
                    for ox in range(ow):
                        ix = ox * sw_ + kx * dw - pl
                        if ix < 0 or ix >= W:
                            continue
                        if depthwise:
                            v = np.repeat(xz[0, iy, ix, :], mult) if mult > 1 else xz[0, iy, ix, :]
                            acc[0, oy, ox, :] += v * wz[0, ky, kx, :]
                        elif ic == C:
                            acc[0, oy, ox, :] += wz[:, ky, kx, :] @ xz[0, iy, ix, :]
                        else:      # grouped convolution: filter j reads the channels of group j // (oc / groups)
                            ocg = oc // (C // ic)
                            for g_ in range(C // ic):
                                acc[0, oy, ox, g_ * ocg:(g_ + 1) * ocg] += wz[g_ * ocg:(g_ + 1) * ocg, ky, kx, :] @ xz[0, iy, ix, g_ * ic:(g_ + 1) * ic]
        if bias is not None:
            acc += bias.reshape([1, 1, 1, -1])
        return self._requant(acc, ins[0], ins[1], out_idx, o.get("FusedActivationFunction", 0), oc)

    def fc(self, x, ins, out_idx, o):
        w = self.const(ins[1])
        if w is None:
            raise Unsupported("dynamic weights")
        bias = self.const(ins[2]) if len(ins) > 2 and ins[2] >= 0 else None
        sci, zpi = self.quant(ins[0])
        scw, zpw = self.quant(ins[1])
        if len(scw) > 1:
            raise Unsupported("per-axis fully connected")
        oc, ic = w.shape
        xf = x.reshape(-1, ic).astype(np.int64) - zpi[0]
        acc = xf @ (w - zpw[0]).T
        if bias is not None:
            acc = acc + bias.reshape([1, -1])
        acc = acc.reshape(self.tens(out_idx)["shape"])
        if self.tens(ins[0])["type"] == "int16" and bias is not None and self.tens(ins[2])["type"] != "int64":
            raise Unsupported("int16 with 32-bit bias (another accumulator path of the reference)")
        return self._requant(acc, ins[0], ins[1], out_idx, o.get("FusedActivationFunction", 0), oc, float_product=True)

    def pool(self, x, in_idx, out_idx, o, is_max):
        sci, zpi = self.quant(in_idx)
        sco, zpo = self.quant(out_idx)
        t = self.tens(out_idx)
        if t["type"] not in ("int8", "uint8", "int16"):
            raise Unsupported("pool type")
        if not is_max and (sci[0] != sco[0] or zpi[0] != zpo[0]):
            raise Unsupported("requantising average pool")
        if is_max and (sci[0] != sco[0] or zpi[0] != zpo[0]):
            raise Unsupported("requantising max pool")
        kh, kw = o.get("FilterHeight", 1), o.get("FilterWidth", 1)
        sh, sw_ = o.get("StrideH", 1), o.get("StrideW", 1)
        n, H, W, C = x.shape
        oh, ow = t["shape"][1:3]
        if o.get("Padding", 0) == 0:
            pt = max((oh - 1) * sh + kh - H, 0) // 2
            pl = max((ow - 1) * sw_ + kw - W, 0) // 2
        else:
            pt = pl = 0
        lo, hi = act_range(o.get("FusedActivationFunction", 0), t["type"], sco[0], zpo[0])
        out = np.zeros((1, oh, ow, C), dtype=np.int64)
        self.padded_avg = getattr(self, "padded_avg", False)
        for oy in range(oh):
            for ox in range(ow):
                y0, x0 = oy * sh - pt, ox * sw_ - pl
                ys = [y for y in range(y0, y0 + kh) if 0 <= y < H]
                xs = [xx for xx in range(x0, x0 + kw) if 0 <= xx < W]
                win = x[0][np.ix_(ys, xs)].reshape(-1, C)
                if is_max:
                    v = win.max(axis=0)
                else:
                    cnt = win.shape[0]
                    if cnt != kh * kw:
                        # exact to one step only (the property lists it as approximated): meaningful when nothing computes on it
                        if any(out_idx in op2["inputs"] for op2 in self.sg["operators"]):
                            raise Unsupported("padded average pool feeding another operator")
                        self.padded_avg = True
                    s = win.sum(axis=0)
                    if t["type"] in ("int8", "int16"):
                        v = np.array([(int(a) + cnt // 2) // cnt if a > 0 else -((-int(a) + cnt // 2) // cnt) for a in s])
                    else:
                        v = np.array([(int(a) + cnt // 2) // cnt for a in s])
                out[0, oy, ox, :] = np.clip(v, lo, hi)
        return out
